//! C14 — execution is deterministic; hints, debug mode and decorators do not change the result;
//! the step iterator agrees with the execution at every clock.
use crate::execgen::*;
use crate::progs::*;
use crate::util::*;
use crate::Emitter;
use processor::{ExecutionOptions, StackInputs};
use vm_core::StarkField;

fn trace_fingerprint(p: &vm_core::Program, st: &[u64], adv: &[u64], expected: u32, tracing: bool) -> Result<String, String> {
    let mut rev = st.to_vec();
    rev.reverse();
    let inputs = StackInputs::try_from_values(rev).map_err(|e| format!("{:?}", e))?;
    let mut opts = ExecutionOptions::new(None, expected, false).map_err(|e| format!("{:?}", e))?;
    if tracing {
        opts = opts.with_tracing();
    }
    let host = LogHost::new(host_with_advice(adv));
    let r = std::panic::catch_unwind(std::panic::AssertUnwindSafe(|| processor::execute(p, inputs, host, opts)));
    match r {
        Err(_) => Err("PANIC".into()),
        Ok(Err(e)) => Ok(format!("err {}", canon_err(&e))),
        Ok(Ok(trace)) => {
            use winter_prover::Trace;
            let main = trace.main_segment();
            // all rows except the last (random) one
            let mut h: u64 = 0xcbf29ce484222325;
            let rows = main.num_rows();
            for c in 0..main.num_cols() {
                let col = main.get_column(c);
                for r in 0..rows - 1 {
                    h = (h ^ col[r].as_int()).wrapping_mul(0x100000001b3);
                }
            }
            Ok(format!("len={} fp={:x} out={}", trace.get_trace_len(), h, join_u64(trace.stack_outputs().stack().iter().copied())))
        }
    }
}

pub fn generate(em: &mut Emitter, seed: u64, thorough: bool) {
    let mut rng = Rng::new(seed ^ 0xC14);
    let n = if thorough { 1500 } else { 120 };
    let decorators = ["debug.stack.4", "emit.7", "trace.3", "debug.mem.1.2", "debug.stack"];
    let (mut hints, mut dbg, mut steps, mut clks) = (0u64, 0u64, 0u64, 0u64);
    let mut zigzag = 0u64;
    let mut trace_rows_checked = 0u64;
    let mut early_overflow = 0u64;
    for i in 0..n {
        let d = rng.below(3) as u32;
        let l = 1 + rng.below(4) as usize;
        let (k, src) = gen_program(&mut rng, i % 3 == 0, d, l);
        let p = match assemble(k.as_deref(), &src, false) {
            Ok(p) => p,
            Err(_) => continue,
        };
        let st = random_stack(&mut rng);
        let adv = random_advice(&mut rng);
        // model correspondence (also shows the model itself is a function of program+inputs+tape)
        let r = exec_case(em, &p, &st, &adv, None, "sys,mem,ops");
        // (a) same trace for every expected-cycles hint and tracing flag
        let base = trace_fingerprint(&p, &st, &adv, 64, false);
        for (e, t) in [(64u32, true), (128, false), (256, false), (1 << 12, false), (1 << 15, true), (1, false), (65, false)] {
            hints += 1;
            let f = trace_fingerprint(&p, &st, &adv, e, t);
            if f != base {
                em.oracle_failures.push(format!(
                    "C14 trace depends on expected_cycles={} tracing={}: `{}` :: {:?} vs {:?}", e, t, src, base, f));
            }
        }
        // run twice: identical
        if trace_fingerprint(&p, &st, &adv, 64, false) != base {
            em.oracle_failures.push(format!("C14 two runs differ: `{}`", src));
        }
        // (b) debug-mode assembly and inserted decorators give the same execution
        let deco_src = {
            let toks: Vec<&str> = src.split(' ').collect();
            let mut out = Vec::new();
            for (j, t) in toks.iter().enumerate() {
                out.push(t.to_string());
                let simple = !t.contains('.') || t.starts_with("push.") || t.starts_with("dup.") || t.starts_with("mem_");
                let next_ok = toks.get(j + 1).map(|n| !n.starts_with("else") ).unwrap_or(false);
                if simple && next_ok && !["begin", "end", "else", "if.true", "while.true"].contains(t) && !t.starts_with("proc") && !t.starts_with("repeat") && !t.starts_with("export") && !t.contains('\n') && rng.chance(1, 4) {
                    out.push(decorators[rng.below(decorators.len() as u64) as usize].to_string());
                }
            }
            out.join(" ")
        };
        for (variant, debug) in [(src.clone(), true), (deco_src.clone(), false), (deco_src.clone(), true)] {
            let asm = assemble(k.as_deref(), &variant, debug);
            if let Err(e) = &asm {
                em.oracle_failures.push(format!(
                    "C14 a source that assembles stops assembling in debug mode / with decorators inserted (debug={}): {} :: `{}`", debug, e, variant));
            }
            if let Ok(pd) = asm {
                dbg += 1;
                let f = trace_fingerprint(&pd, &st, &adv, 64, debug);
                if f != base {
                    em.oracle_failures.push(format!(
                        "C14 debug/decorated assembly changes the execution (debug={}): `{}` :: {:?} vs {:?}", debug, variant, base, f));
                }
            }
        }
        // (c) step iterator: state at clock t, forward then backward, equals the forward state and
        //     the final state equals the execution result
        if r.ok && i % 2 == 0 {
            let mut rev = st.clone();
            rev.reverse();
            let inputs = StackInputs::try_from_values(rev).unwrap();
            let mut it = processor::execute_iter(&p, inputs, ReplayHost::new(r.tape.clone()));
            let mut fwd: Vec<String> = Vec::new();
            while let Some(Ok(s)) = it.next() {
                // the clk instruction pushes the clock value at which it executed
                if s.op == Some(vm_core::Operation::Clk) {
                    clks += 1;
                    if s.stack[0].as_int() + 1 != u32::from(s.clk) as u64 {
                        em.oracle_failures.push(format!("C14 clk pushed {} at clock {}: `{}`", s.stack[0].as_int(), u32::from(s.clk) - 1, src));
                    }
                }
                fwd.push(format!("{} {} {} {:?} {:?}", u32::from(s.clk), u32::from(s.ctx), s.fmp.as_int(),
                    s.stack.iter().map(|f| f.as_int()).collect::<Vec<_>>(),
                    s.memory.iter().map(|(a, w)| (*a, w.iter().map(|f| f.as_int()).collect::<Vec<_>>())).collect::<Vec<_>>()));
                if fwd.len() > 3000 { break; }
            }
            // the forward states agree with the rows of the execution trace (stack top 16, depth,
            // fmp, ctx): state at clock t = row t of the main segment
            let trace_res = std::panic::catch_unwind(std::panic::AssertUnwindSafe(|| {
                processor::execute(&p, StackInputs::try_from_values({ let mut v = st.clone(); v.reverse(); v }).unwrap(), ReplayHost::new(r.tape.clone()), processor::ExecutionOptions::default())
            }));
            if let Ok(Ok(trace)) = trace_res {
                use winter_prover::Trace;
                let ms = trace.main_segment();
                let nrows = ms.num_rows();
                // overflow elements of ALL contexts in push order, reconstructed from the trace rows:
                // g[t] = list after the first t operations
                let opcode_at = |t: usize| -> u8 {
                    let mut v = 0u8;
                    for b in 0..7 {
                        if ms.get(air::trace::DECODER_TRACE_OFFSET + 1 + b, t).as_int() == 1 {
                            v |= 1 << b;
                        }
                    }
                    v
                };
                let b0 = |t: usize| ms.get(air::trace::STACK_TRACE_OFFSET + 16, t).as_int() as i64;
                let mut g: Vec<Vec<u64>> = vec![st.iter().skip(16).rev().copied().collect()];
                let last = trace.trace_len_summary().main_trace_len().min(nrows - 2);
                for t in 0..last {
                    let mut cur = g[t].clone();
                    let opc = opcode_at(t);
                    let delta = b0(t + 1) - b0(t);
                    let ctx_switch = matches!(opc, 104 | 108 | 88) || (opc == 112 && delta != -1);
                    if !ctx_switch {
                        if delta == 1 {
                            cur.push(ms.get(air::trace::STACK_TRACE_OFFSET + 15, t).as_int());
                        } else if delta == -1 {
                            cur.pop();
                        }
                    }
                    g.push(cur);
                }
                let mut it2 = processor::execute_iter(&p, StackInputs::try_from_values({ let mut v = st.clone(); v.reverse(); v }).unwrap(), ReplayHost::new(r.tape.clone()));
                let mut checked = 0;
                while let Some(Ok(s)) = it2.next() {
                    let t = u32::from(s.clk) as usize;
                    if t + 1 >= g.len() || checked > 2000 {
                        break;
                    }
                    checked += 1;
                    let row_stack: Vec<u64> = (0..16).map(|i| ms.get(air::trace::STACK_TRACE_OFFSET + i, t).as_int()).collect();
                    let it_stack: Vec<u64> = s.stack.iter().take(16).map(|f| f.as_int()).collect();
                    let it_over: Vec<u64> = s.stack.iter().skip(16).map(|f| f.as_int()).collect();
                    let fmp = ms.get(air::trace::FMP_COL_IDX, t).as_int();
                    let ctx = ms.get(air::trace::CTX_COL_IDX, t).as_int();
                    let same_top = row_stack[..it_stack.len().min(16)] == it_stack[..] && fmp == s.fmp.as_int() && ctx == u32::from(s.ctx) as u64;
                    // what the trace holds at row t: the overflow elements of the current context
                    let visible = (b0(t) - 16).max(0) as usize;
                    let want_now: Vec<u64> = g[t].iter().rev().take(visible).copied().collect();
                    // what the pinned implementation reports (recorded finding): the overflow elements
                    // of all contexts after the operation executed at clock t
                    let want_quirk: Vec<u64> = g[t + 1].iter().rev().copied().collect();
                    if !same_top || (it_over != want_now && it_over != want_quirk) {
                        em.oracle_failures.push(format!(
                            "C14 step iterator state at clock {} differs from trace row {}: `{}` stack={:?} :: iterator top {:?} overflow {:?} fmp {} ctx {} vs trace top {:?} overflow {:?} (or {:?}) fmp {} ctx {}",
                            t, t, src, st, it_stack, it_over, s.fmp.as_int(), u32::from(s.ctx), row_stack, want_now, want_quirk, fmp, ctx));
                        break;
                    }
                    if it_over != want_now {
                        early_overflow += 1;
                        if early_overflow == 1 {
                            em.oracle_failures.push(format!(
                                "C14 step iterator reports the overflow part of the stack one step early: at clock {} it lists {:?} below position 15 (the overflow elements of all contexts after the operation of clock {}), while trace row {} holds {:?} (top 16, fmp, ctx agree) in `{}`",
                                t, it_over, t, t, want_now, &src[..src.len().min(120)]));
                        }
                    }
                    trace_rows_checked += 1;
                }
            }
            // walk back a random distance and forward again
            let back = 1 + rng.below(fwd.len().max(2) as u64 - 1) as usize;
            let idx = fwd.len();
            let mut bad = None;
            for _ in 0..back {
                if let Some(s) = it.back() {
                    let line = format!("{} {} {} {:?} {:?}", u32::from(s.clk), u32::from(s.ctx), s.fmp.as_int(),
                        s.stack.iter().map(|f| f.as_int()).collect::<Vec<_>>(),
                        s.memory.iter().map(|(a, w)| (*a, w.iter().map(|f| f.as_int()).collect::<Vec<_>>())).collect::<Vec<_>>());
                    // compare with the forward state of the same clock
                    let t = u32::from(s.clk) as usize;
                    let _ = idx;
                    if t < fwd.len() && line != fwd[t] && bad.is_none() {
                        bad = Some((t, line));
                    }
                    steps += 1;
                }
            }
            if let Some((t, line)) = bad {
                em.oracle_failures.push(format!(
                    "C14 stepping back to clock {} differs from stepping forward: `{}` stack={:?} :: back=`{}` fwd=`{}`",
                    t, src, st, &line[..line.len().min(200)], &fwd[t][..fwd[t].len().min(200)]));
            }
            // every stepping sequence: a zig-zag (forward to t, back, forward again) reverses the
            // direction at every clock in both directions, then a random walk; whatever the path,
            // a state reported for clock t is the forward state of clock t
            if fwd.len() >= 3 && fwd.len() <= 3000 {
                let mk = || processor::execute_iter(&p, StackInputs::try_from_values({ let mut v = st.clone(); v.reverse(); v }).unwrap(), ReplayHost::new(r.tape.clone()));
                let line_of = |s: &processor::VmState| format!("{} {} {} {:?} {:?}", u32::from(s.clk), u32::from(s.ctx), s.fmp.as_int(),
                    s.stack.iter().map(|f| f.as_int()).collect::<Vec<_>>(),
                    s.memory.iter().map(|(a, w)| (*a, w.iter().map(|f| f.as_int()).collect::<Vec<_>>())).collect::<Vec<_>>());
                let n = fwd.len();
                let mut z = mk();
                let mut bad: Option<String> = None;
                let mut check = |what: &str, want_clk: usize, got: Option<processor::VmState>, bad: &mut Option<String>| {
                    if bad.is_some() { return; }
                    match got {
                        Some(s) => {
                            let t = u32::from(s.clk) as usize;
                            zigzag += 1;
                            if t != want_clk {
                                *bad = Some(format!("{} reported clock {} where clock {} was due", what, t, want_clk));
                            } else if line_of(&s) != fwd[t] {
                                *bad = Some(format!("{} reported for clock {} `{}` but the forward state is `{}`", what, t, &line_of(&s)[..line_of(&s).len().min(160)], &fwd[t][..fwd[t].len().min(160)]));
                            }
                        }
                        None => *bad = Some(format!("{} reported nothing where clock {} was due", what, want_clk)),
                    }
                };
                // the first state, then for every later clock: forward, back, forward
                let first = z.next().and_then(|x| x.ok());
                check("the first next()", 0, first, &mut bad);
                for t in 1..n {
                    let a = z.next().and_then(|x| x.ok());
                    check("next()", t, a, &mut bad);
                    let b = z.back();
                    check("back() right after next()", t, b, &mut bad);
                    let c = z.next().and_then(|x| x.ok());
                    check("next() right after back()", t, c, &mut bad);
                    if bad.is_some() { break; }
                }
                // random walk over the whole range, the two ends included: whatever clock a step
                // reports (a reversal may repeat the last clock), it moves the right way by at most
                // one and the state is the forward state of that clock
                if bad.is_none() {
                    let mut w = mk();
                    let mut pos: i64 = -1; // clock of the last reported state
                    let mut fwd_dir = true;
                    for _ in 0..(4 * n).min(4000) {
                        let at_start = pos <= 0;
                        let at_end = pos as usize + 1 >= n && pos >= 0;
                        let go_fwd = if at_start { true } else if at_end { false } else if rng.chance(3, 4) { fwd_dir } else { !fwd_dir };
                        let got = if go_fwd { w.next().and_then(|x| x.ok()) } else { w.back() };
                        match got {
                            Some(s) => {
                                let t = u32::from(s.clk) as i64;
                                zigzag += 1;
                                let moved_ok = if go_fwd { t == pos + 1 || (t == pos && !fwd_dir) } else { t == pos - 1 || (t == pos && fwd_dir) };
                                if !moved_ok {
                                    bad = Some(format!("random walk: {} after clock {} (previous step {}) reported clock {}", if go_fwd { "next()" } else { "back()" }, pos, if fwd_dir { "forward" } else { "backward" }, t));
                                } else if (t as usize) < n && line_of(&s) != fwd[t as usize] {
                                    bad = Some(format!("random walk: {} reported for clock {} `{}` but the forward state is `{}`", if go_fwd { "next()" } else { "back()" }, t, &line_of(&s)[..line_of(&s).len().min(160)], &fwd[t as usize][..fwd[t as usize].len().min(160)]));
                                }
                                pos = t;
                            }
                            None => {
                                // stepping backwards ends below clock 1 (clock 0 is reported only on a reversal there)
                                if !(pos <= 1 && !go_fwd) {
                                    bad = Some(format!("random walk: {} after clock {} (previous step {}) reported nothing although clocks 0..{} exist", if go_fwd { "next()" } else { "back()" }, pos, if fwd_dir { "forward" } else { "backward" }, n - 1));
                                }
                            }
                        }
                        fwd_dir = go_fwd;
                        if bad.is_some() { break; }
                    }
                }
                // reversal at the very first clock
                if bad.is_none() {
                    let mut w = mk();
                    let mut seen = vec![];
                    for step in ["next", "back", "next", "next"] {
                        let got = std::panic::catch_unwind(std::panic::AssertUnwindSafe(|| if step == "next" { w.next().and_then(|x| x.ok()) } else { w.back() }));
                        match got {
                            Ok(Some(s)) => {
                                let t = u32::from(s.clk) as usize;
                                zigzag += 1;
                                if t < n && line_of(&s) != fwd[t] {
                                    bad = Some(format!("reversal at clock 0: {}() reported a wrong state for clock {}", step, t));
                                }
                                seen.push(t as i64);
                            }
                            Ok(None) => seen.push(-1),
                            Err(_) => { seen.push(-2); break; }
                        }
                    }
                    // the iterator must still move forward afterwards
                    if bad.is_none() && !(seen.len() == 4 && seen[2] >= 0 && seen[3] >= 1 && seen[3] > seen[2]) {
                        bad = Some(format!("reversal at clock 0: next, back, next, next reported clocks {:?} (-1: nothing, -2: panic); the iterator does not move forward again", seen));
                    }
                }
                if let Some(m) = bad {
                    em.oracle_failures.push(format!("C14 step iterator depends on the stepping sequence: {} in `{}` stack={:?}", m, src, st));
                }
            }
            // final forward state's stack equals the reported outputs
            if let Some(last) = fwd.last() {
                let outs = r.answer.split("stack=").nth(1).unwrap().split(' ').next().unwrap();
                let want: Vec<u64> = outs.split(',').filter_map(|x| x.parse().ok()).collect();
                if !last.contains(&format!("{:?}", want)) {
                    em.oracle_failures.push(format!("C14 last iterator state differs from outputs: `{}` :: {} vs {:?}", src, &last[..last.len().min(200)], want));
                }
            }
        }
    }
    // (d) debug-only decorators at every position of a body, including right after a control block
    //     (where no operation of the same span precedes them): assembling in debug mode must give
    //     the same execution as assembling without it
    {
        let shapes: [(&str, &str); 7] = [
            ("after an operation", "begin push.1 push.2 add {D} drop end"),
            ("first in the body", "begin {D} push.1 drop end"),
            ("last in the body", "begin push.1 drop {D} end"),
            ("after the last control block", "begin push.1 if.true push.2 drop end {D} end"),
            ("between control blocks", "begin push.1 if.true push.2 drop end {D} push.0 while.true push.0 end end"),
            ("last in a branch after a loop", "begin push.1 if.true push.0 while.true push.0 end {D} else push.3 drop end end"),
            ("last in a procedure after a control block", "proc.f push.1 if.true push.2 drop end {D} end begin exec.f end"),
        ];
        let mut n_dbg = 0u64;
        for (what, shape) in shapes.iter() {
            for d in ["debug.stack", "debug.stack.4", "debug.mem", "debug.mem.1.2"] {
                let src = shape.replace("{D}", d);
                let plain = match assemble(None, &src, false) {
                    Ok(p) => p,
                    Err(e) => {
                        em.oracle_failures.push(format!("C14 source with a debug decorator {} does not assemble without debug mode: {} :: `{}`", what, e, src));
                        continue;
                    }
                };
                n_dbg += 1;
                let base = trace_fingerprint(&plain, &[], &[], 64, false);
                match assemble(None, &src, true) {
                    Ok(pd) => {
                        let f = trace_fingerprint(&pd, &[], &[], 64, true);
                        if f != base {
                            em.oracle_failures.push(format!("C14 debug-mode assembly changes the execution (decorator {}): `{}` :: {:?} vs {:?}", what, src, base, f));
                        }
                    }
                    Err(e) => em.oracle_failures.push(format!(
                        "C14 assembling in debug mode fails ({}) where the same source assembles without it (debug decorator {}): `{}`", e, what, src)),
                }
            }
        }
        em.stat("debug_decorator_position_programs", n_dbg);
    }
    em.stat("iterator_states_compared_with_trace_rows", trace_rows_checked);
    em.stat("iterator_states_with_overflow_part_one_step_early", early_overflow);
    em.stat("clk_instructions_checked", clks);
    em.stat("hint_variants", hints);
    em.stat("debug_variants", dbg);
    em.stat("backward_steps", steps);
    em.stat("zigzag_and_random_walk_states", zigzag);
}
