//! C02 — a proof binds to its statement; altered statements or proofs are rejected (never
//! accepted, never a panic).
use crate::c01::*;
use crate::execgen::*;
use crate::util::*;
use crate::Emitter;
use air::{ExecutionProof, HashFunction, ProvingOptions};
use processor::{ProgramInfo, StackInputs};
use std::panic::{catch_unwind, AssertUnwindSafe};
use vm_core::{chiplets::hasher::Digest, Felt, Kernel, StackOutputs, StarkField};
use winter_utils::{Deserializable, Serializable};

fn verify_raw(info: ProgramInfo, inputs: StackInputs, outputs: StackOutputs, proof: ExecutionProof) -> Result<u32, String> {
    match catch_unwind(AssertUnwindSafe(|| verifier::verify(info, inputs, outputs, proof))) {
        Err(_) => Err("PANIC".into()),
        Ok(Err(_)) => Err("rejected".into()),
        Ok(Ok(l)) => Ok(l),
    }
}

struct Stats {
    rejected: u64,
    rejected_kinds: Vec<String>,
    accepted: Vec<String>,
    panicked: Vec<String>,
}

fn expect_reject(st: &mut Stats, what: String, r: Result<u32, String>) {
    match r {
        Ok(_) => st.accepted.push(what),
        Err(e) if e == "PANIC" => st.panicked.push(what),
        Err(_) => {
            st.rejected += 1;
            st.rejected_kinds.push(what);
        }
    }
}

pub fn generate(em: &mut Emitter, seed: u64, thorough: bool) {
    let mut rng = Rng::new(seed ^ 0xC02);
    let sources: Vec<(String, Option<String>, Vec<u64>)> = vec![
        ("begin push.1 push.2 add swap end".into(), None, vec![7, 8, 9]),
        ("begin push.1 push.2 push.3 push.4 push.5 end".into(), None, (1..=19).collect()),
        (
            "proc.f push.3 add end begin call.f syscall.k1 push.5 end".into(),
            Some("export.k1 push.1 drop end\nexport.k2 push.2 drop end\n".into()),
            vec![5, 6, 7],
        ),
    ];
    let mut stats = Stats { rejected: 0, rejected_kinds: vec![], accepted: vec![], panicked: vec![] };
    let sets = option_sets();
    let n_sets = if thorough { 4 } else { 2 };
    for (si, (src, k, st)) in sources.iter().enumerate() {
        let p = assemble(k.as_deref(), src, false).expect("C02 source assembles");
        for (name, opts, _) in sets.iter().skip(si % 2).step_by(if thorough { 1 } else { 2 }).take(n_sets) {
            let (inputs, outputs, proof) = match prove_one(&p, st, &[], opts.clone()) {
                Ok(x) => x,
                Err(e) => {
                    em.oracle_failures.push(format!("C02 cannot prove the base statement ({}): {}", name, e));
                    continue;
                }
            };
            let info = ProgramInfo::from(p.clone());
            // sanity: the unaltered statement verifies
            if verify_raw(info.clone(), inputs.clone(), outputs.clone(), proof.clone()).is_err() {
                em.oracle_failures.push(format!("C02 base statement does not verify ({}): `{}`", name, src));
                continue;
            }
            let tag = format!("[{} `{}`]", name, src);
            // ---- program hash: every element ----------------------------------------------------
            for i in 0..4 {
                let mut h: [Felt; 4] = (*info.program_hash()).into();
                h[i] += Felt::new(1);
                let info2 = ProgramInfo::new(Digest::from(h), info.kernel().clone());
                expect_reject(&mut stats, format!("program hash element {} altered {}", i, tag), verify_raw(info2, inputs.clone(), outputs.clone(), proof.clone()));
            }
            // ---- kernel: add / remove / alter a digest ---------------------------------------------
            {
                let ks: Vec<Digest> = info.kernel().proc_hashes().to_vec();
                let mut added = ks.clone();
                added.push(Digest::from([Felt::new(1), Felt::new(2), Felt::new(3), Felt::new(4)]));
                if let Ok(kk) = Kernel::new(&added) {
                    expect_reject(&mut stats, format!("kernel digest added {}", tag), verify_raw(ProgramInfo::new(*info.program_hash(), kk), inputs.clone(), outputs.clone(), proof.clone()));
                }
                if !ks.is_empty() {
                    let removed: Vec<Digest> = ks[1..].to_vec();
                    if let Ok(kk) = Kernel::new(&removed) {
                        expect_reject(&mut stats, format!("kernel digest removed {}", tag), verify_raw(ProgramInfo::new(*info.program_hash(), kk), inputs.clone(), outputs.clone(), proof.clone()));
                    }
                    let mut alt = ks.clone();
                    let mut w: [Felt; 4] = alt[0].into();
                    w[2] += Felt::new(1);
                    alt[0] = Digest::from(w);
                    if let Ok(kk) = Kernel::new(&alt) {
                        expect_reject(&mut stats, format!("kernel digest altered {}", tag), verify_raw(ProgramInfo::new(*info.program_hash(), kk), inputs.clone(), outputs.clone(), proof.clone()));
                    }
                }
            }
            // ---- stack inputs: every element, length changes ------------------------------------------
            let in_vals: Vec<u64> = inputs.values().iter().rev().map(|f| f.as_int()).collect(); // deepest first
            for i in 0..in_vals.len() {
                let mut v = in_vals.clone();
                v[i] = (v[i] + 1) % P;
                let inp = StackInputs::try_from_values(v).unwrap();
                expect_reject(&mut stats, format!("stack input {} altered {}", i, tag), verify_raw(info.clone(), inp, outputs.clone(), proof.clone()));
            }
            {
                let mut v = in_vals.clone();
                v.push(5);
                expect_reject(&mut stats, format!("stack input appended {}", tag), verify_raw(info.clone(), StackInputs::try_from_values(v).unwrap(), outputs.clone(), proof.clone()));
                if in_vals.len() > 1 {
                    let v = in_vals[1..].to_vec();
                    expect_reject(&mut stats, format!("deepest stack input removed {}", tag), verify_raw(info.clone(), StackInputs::try_from_values(v).unwrap(), outputs.clone(), proof.clone()));
                    let v = in_vals[..in_vals.len() - 1].to_vec();
                    expect_reject(&mut stats, format!("top stack input removed {}", tag), verify_raw(info.clone(), StackInputs::try_from_values(v).unwrap(), outputs.clone(), proof.clone()));
                }
            }
            // ---- stack outputs: every element incl. overflow, every overflow address, lengths -----------
            let o_stack = outputs.stack().to_vec();
            let o_addrs = outputs.overflow_addrs().to_vec();
            for i in 0..o_stack.len() {
                let mut s2 = o_stack.clone();
                s2[i] = (s2[i] + 1) % P;
                if let Ok(o2) = StackOutputs::new(s2, o_addrs.clone()) {
                    expect_reject(&mut stats, format!("stack output {} altered {}", i, tag), verify_raw(info.clone(), inputs.clone(), o2, proof.clone()));
                }
            }
            for i in 0..o_addrs.len() {
                let mut a2 = o_addrs.clone();
                a2[i] = (a2[i] + 1) % P;
                if let Ok(o2) = StackOutputs::new(o_stack.clone(), a2) {
                    expect_reject(&mut stats, format!("overflow address {} altered {}", i, tag), verify_raw(info.clone(), inputs.clone(), o2, proof.clone()));
                }
            }
            if o_stack.len() > 16 {
                // drop the deepest overflow element together with its address
                let s2 = o_stack[..o_stack.len() - 1].to_vec();
                let a2 = if s2.len() > 16 { o_addrs[1..].to_vec() } else { vec![] };
                if let Ok(o2) = StackOutputs::new(s2, a2) {
                    expect_reject(&mut stats, format!("deepest output removed {}", tag), verify_raw(info.clone(), inputs.clone(), o2, proof.clone()));
                }
            } else {
                // claim an extra overflow element
                let mut s2 = o_stack.clone();
                s2.push(0);
                if let Ok(o2) = StackOutputs::new(s2, vec![0, 3]) {
                    expect_reject(&mut stats, format!("extra overflow output claimed {}", tag), verify_raw(info.clone(), inputs.clone(), o2, proof.clone()));
                }
            }
            // outputs that went through the unvalidated byte decoder: short or non-canonical
            for (what, st_vals, ad_vals) in [
                ("decoded outputs with 3 elements", vec![1u64, 2, 3], vec![]),
                ("decoded outputs with a non-canonical element", { let mut s2 = o_stack.clone(); s2[0] = u64::MAX; s2 }, o_addrs.clone()),
                ("decoded outputs with mismatched address count", o_stack.clone(), vec![1u64, 2, 3, 4, 5]),
            ] {
                let mut bytes = Vec::new();
                bytes.extend_from_slice(&(st_vals.len() as u32).to_le_bytes());
                for v in &st_vals {
                    bytes.extend_from_slice(&v.to_le_bytes());
                }
                bytes.extend_from_slice(&(ad_vals.len() as u32).to_le_bytes());
                for v in &ad_vals {
                    bytes.extend_from_slice(&v.to_le_bytes());
                }
                match catch_unwind(AssertUnwindSafe(|| StackOutputs::read_from_bytes(&bytes))) {
                    Err(_) => stats.panicked.push(format!("{} (in the decoder) {}", what, tag)),
                    Ok(Err(_)) => stats.rejected += 1,
                    Ok(Ok(o2)) => expect_reject(&mut stats, format!("{} {}", what, tag), verify_raw(info.clone(), inputs.clone(), o2, proof.clone())),
                }
            }
            // ---- proof bytes: bit flips / truncations stratified over the whole encoding -----------------
            let bytes = proof.to_bytes();
            let nflip = if thorough { 300 } else { 60 };
            for j in 0..nflip {
                let pos = if j < 40 { 1 + j } else { 1 + ((bytes.len() - 2) * (j - 40) / (nflip - 40)).min(bytes.len() - 2) };
                let pos = pos.min(bytes.len() - 1);
                let mut b2 = bytes.clone();
                b2[pos] ^= 1 << rng.below(8);
                let what = format!("proof byte {} of {} flipped {}", pos, bytes.len(), tag);
                match catch_unwind(AssertUnwindSafe(|| ExecutionProof::from_bytes(&b2))) {
                    Err(_) => stats.panicked.push(format!("{} (in from_bytes)", what)),
                    Ok(Err(_)) => stats.rejected += 1,
                    Ok(Ok(pr)) => expect_reject(&mut stats, what, verify_raw(info.clone(), inputs.clone(), outputs.clone(), pr)),
                }
            }
            for cut in [0usize, 1, 2, 3, 10, bytes.len() / 4, bytes.len() / 2, bytes.len() - 100.min(bytes.len()), bytes.len() - 1] {
                let b2 = &bytes[..cut.min(bytes.len())];
                let what = format!("proof truncated to {} of {} bytes {}", b2.len(), bytes.len(), tag);
                match catch_unwind(AssertUnwindSafe(|| ExecutionProof::from_bytes(b2))) {
                    Err(_) => stats.panicked.push(format!("{} (in from_bytes)", what)),
                    Ok(Err(_)) => stats.rejected += 1,
                    Ok(Ok(pr)) => expect_reject(&mut stats, what, verify_raw(info.clone(), inputs.clone(), outputs.clone(), pr)),
                }
            }
            // ---- hash-function tag relabelled ---------------------------------------------------------------
            for t in 0u8..=4 {
                if t == proof.hash_fn() as u8 {
                    continue;
                }
                let mut b2 = bytes.clone();
                b2[0] = t;
                let what = format!("hash tag relabelled {} -> {} {}", proof.hash_fn() as u8, t, tag);
                match catch_unwind(AssertUnwindSafe(|| ExecutionProof::from_bytes(&b2))) {
                    Err(_) => stats.panicked.push(format!("{} (in from_bytes)", what)),
                    Ok(Err(_)) => stats.rejected += 1,
                    Ok(Ok(pr)) => expect_reject(&mut stats, what, verify_raw(info.clone(), inputs.clone(), outputs.clone(), pr)),
                }
            }
        }
        // ---- weaker-than-accepted proving options ------------------------------------------------------------
        for (what, opts) in [
            ("11 queries blake3-192", ProvingOptions::new(11, 8, 16, air::FieldExtension::Quadratic, 8, 255, HashFunction::Blake3_192)),
            ("27 queries no grinding blake3-192", ProvingOptions::new(27, 8, 0, air::FieldExtension::Quadratic, 8, 255, HashFunction::Blake3_192)),
            ("96-bit set under the 256 tag", ProvingOptions::new(27, 8, 16, air::FieldExtension::Quadratic, 8, 255, HashFunction::Blake3_256)),
            ("regular set under the rpo tag", ProvingOptions::new(27, 8, 16, air::FieldExtension::Quadratic, 8, 255, HashFunction::Rpo256)),
            ("no field extension rpo", ProvingOptions::new(27, 8, 16, air::FieldExtension::None, 4, 7, HashFunction::Rpo256)),
        ] {
            match prove_one(&p, st, &[], opts) {
                Err(_) => {}
                Ok((inputs, outputs, proof)) => {
                    let info = ProgramInfo::from(p.clone());
                    expect_reject(&mut stats, format!("proof produced with weaker options ({}) `{}`", what, src), verify_raw(info, inputs, outputs, proof));
                }
            }
        }
    }
    for a in &stats.accepted {
        em.oracle_failures.push(format!("C02 verifier ACCEPTED an altered statement/proof: {}", a));
    }
    let mut seen = std::collections::BTreeSet::new();
    for a in &stats.panicked {
        // one witness per kind of alteration
        let kind: String = a.split(' ').take(4).collect::<Vec<_>>().join(" ");
        if seen.insert(kind) {
            em.oracle_failures.push(format!("C02 verification PANICKED instead of returning an error: {}", a));
        }
    }
    // every alteration is also a request to the model, which predicts `rejected` for all of them
    for k in &stats.rejected_kinds {
        let tok: String = k.chars().map(|c| if c.is_whitespace() { '_' } else { c }).collect();
        em.emit(format!("alteration {}", tok), "rejected".into());
    }
    em.stat("alterations_rejected", stats.rejected);
    em.stat("alterations_accepted", stats.accepted.len());
    em.stat("alterations_panicked", stats.panicked.len());
    // tag / option logic for the Lean model
    for t in 0u8..=5 {
        em.emit(format!("hashtag {}", t), match HashFunction::try_from(t) { Ok(h) => format!("tag {}", h as u8), Err(_) => "err".into() });
    }
}
