//! `mvh` — correspondence harness for the Lean model of Miden VM.
//!
//!   mvh export <dir>                      regenerate Lean tables from the linked crates
//!   mvh gen <prop> <seed> <tier> <outdir> write <prop>.req / <prop>.impl / <prop>.stats.json
mod util;
mod export;
mod progs;
mod c08;
mod c09;
mod c10;
mod c13;
mod c15;
mod c16;
mod airmon;
mod c01;
mod c02;
mod c03;
mod c04;
mod c05;
mod c06;
mod c07;
mod c14;
mod execgen;

use std::fs;
use std::io::Write;

pub struct Emitter {
    pub req: Vec<String>,
    pub ans: Vec<String>,
    /// free-form per-generator statistics (printed into the evidence file)
    pub stats: Vec<(String, String)>,
    /// failures of the implementation against an oracle that is not the Lean model
    pub oracle_failures: Vec<String>,
    /// witnesses that match an entry of known_findings.json are reported, not failed
    pub notes: Vec<String>,
}

impl Emitter {
    pub fn new() -> Self {
        Self { req: vec![], ans: vec![], stats: vec![], oracle_failures: vec![], notes: vec![] }
    }
    pub fn emit(&mut self, req: String, ans: String) {
        debug_assert!(!req.contains('\n') && !ans.contains('\n'));
        self.req.push(req);
        self.ans.push(ans);
    }
    pub fn stat(&mut self, k: &str, v: impl ToString) {
        self.stats.push((k.to_string(), v.to_string()));
    }
}

fn json_escape(s: &str) -> String {
    let mut o = String::new();
    for c in s.chars() {
        match c {
            '"' => o.push_str("\\\""),
            '\\' => o.push_str("\\\\"),
            '\n' => o.push_str("\\n"),
            '\t' => o.push_str("\\t"),
            c if (c as u32) < 0x20 => o.push_str(&format!("\\u{:04x}", c as u32)),
            c => o.push(c),
        }
    }
    o
}

fn main() {
    // silence panic messages of caught panics (each case is run under catch_unwind)
    std::panic::set_hook(Box::new(|_| {}));
    util::felt_modulus_check();
    let args: Vec<String> = std::env::args().collect();
    if args.len() < 2 {
        eprintln!("usage: mvh export <dir> | mvh gen <prop> <seed> <tier> <outdir>");
        std::process::exit(2);
    }
    match args[1].as_str() {
        "run" => {
            // mvh run <file.masm> <stack csv | -> [adv csv]   (probe: prints the implementation's answer)
            let src = fs::read_to_string(&args[2]).expect("source file");
            let st: Vec<u64> = if args[3] == "-" { vec![] } else { args[3].split(',').map(|x| x.parse().unwrap()).collect() };
            let adv: Vec<u64> = if args.len() > 4 { args[4].split(',').map(|x| x.parse().unwrap()).collect() } else { vec![] };
            match execgen::assemble(None, &src, false) {
                Err(e) => println!("assembly error: {}", e),
                Ok(p) => {
                    let r = util::run_impl(&p, &st, execgen::host_with_advice(&adv), util::Lies::default(), None, "sys,mem");
                    println!("{}", r.answer);
                }
            }
        }
        "decode" => {
            // mvh decode <kind> <hex>   (probe; panics are not caught so that the message is visible)
            std::panic::set_hook(Box::new(|i| eprintln!("PANIC: {}", i)));
            let bytes: Vec<u8> = (0..args[3].len() / 2).map(|i| u8::from_str_radix(&args[3][2 * i..2 * i + 2], 16).unwrap()).collect();
            match args[2].as_str() {
                "program" => println!("{:?}", assembly::ast::ProgramAst::from_bytes(&bytes).map(|_| "ok")),
                "module" => println!("{:?}", assembly::ast::ModuleAst::from_bytes(&bytes).map(|_| "ok")),
                _ => println!("unknown kind"),
            }
        }
        "export" => {
            export::export_all(&args[2]);
        }
        "gen" => {
            let prop = args[2].as_str();
            let seed: u64 = args[3].parse().expect("seed");
            let thorough = args[4] == "thorough";
            let outdir = &args[5];
            let mut em = Emitter::new();
            match prop {
                "C08" => c08::generate(&mut em, seed, thorough),
                "C09" => c09::generate(&mut em, seed, thorough),
                "C10" => c10::generate_c10(&mut em, seed, thorough),
                "C19" => c10::generate_c19(&mut em, seed, thorough),
                "C13" => c13::generate(&mut em, seed, thorough),
                "C15" => c15::generate(&mut em, seed, thorough),
                "C16" => c16::generate(&mut em, seed, thorough),
                "C01" => c01::generate(&mut em, seed, thorough),
                "C02" => c02::generate(&mut em, seed, thorough),
                "C03" => c03::generate(&mut em, seed, thorough),
                "C04" => c04::generate(&mut em, seed, thorough),
                "C05" => c05::generate(&mut em, seed, thorough),
                "C06" => c06::generate(&mut em, seed, thorough),
                "C07" => c07::generate(&mut em, seed, thorough),
                "C14" => c14::generate(&mut em, seed, thorough),
                other => {
                    eprintln!("unknown property {}", other);
                    std::process::exit(2);
                }
            }
            fs::create_dir_all(outdir).unwrap();
            let mut f = fs::File::create(format!("{}/{}.req", outdir, prop)).unwrap();
            for l in &em.req {
                writeln!(f, "{}", l).unwrap();
            }
            let mut f = fs::File::create(format!("{}/{}.impl", outdir, prop)).unwrap();
            for l in &em.ans {
                writeln!(f, "{}", l).unwrap();
            }
            let mut f = fs::File::create(format!("{}/{}.stats.json", outdir, prop)).unwrap();
            let stats: Vec<String> = em
                .stats
                .iter()
                .map(|(k, v)| format!("\"{}\": \"{}\"", json_escape(k), json_escape(v)))
                .collect();
            let of: Vec<String> =
                em.oracle_failures.iter().map(|s| format!("\"{}\"", json_escape(s))).collect();
            let notes: Vec<String> = em.notes.iter().map(|s| format!("\"{}\"", json_escape(s))).collect();
            writeln!(
                f,
                "{{\"cases\": {}, \"stats\": {{{}}}, \"oracle_failures\": [{}], \"notes\": [{}]}}",
                em.req.len(),
                stats.join(", "),
                of.join(", "),
                notes.join(", ")
            )
            .unwrap();
        }
        _ => {
            eprintln!("unknown command");
            std::process::exit(2);
        }
    }
}
