//! `mvh` — correspondence harness for the Lean model of Miden VM.
//!
//!   mvh export <dir>                      regenerate Lean tables from the linked crates
//!   mvh gen <prop> <seed> <tier> <outdir> write <prop>.req / <prop>.impl / <prop>.stats.json
mod util;
mod export;
mod progs;
mod c08;
mod c09;
mod c10;
mod c11;
mod c12;
mod c13;
mod c15;
mod c16;
mod c17;
mod c18;
mod airmon;
mod c01;
mod c02;
mod c03;
mod c04;
mod c05;
mod c06;
mod c07;
mod c14;
mod execgen;

use std::fs;
use std::io::Write;

pub struct Emitter {
    pub req: Vec<String>,
    pub ans: Vec<String>,
    /// free-form per-generator statistics (printed into the evidence file)
    pub stats: Vec<(String, String)>,
    /// failures of the implementation against an oracle that is not the Lean model
    pub oracle_failures: Vec<String>,
    /// witnesses that match an entry of known_findings.json are reported, not failed
    pub notes: Vec<String>,
}

impl Emitter {
    pub fn new() -> Self {
        Self { req: vec![], ans: vec![], stats: vec![], oracle_failures: vec![], notes: vec![] }
    }
    pub fn emit(&mut self, req: String, ans: String) {
        debug_assert!(!req.contains('\n') && !ans.contains('\n'));
        self.req.push(req);
        self.ans.push(ans);
    }
    pub fn stat(&mut self, k: &str, v: impl ToString) {
        self.stats.push((k.to_string(), v.to_string()));
    }
}

fn json_escape(s: &str) -> String {
    let mut o = String::new();
    for c in s.chars() {
        match c {
            '"' => o.push_str("\\\""),
            '\\' => o.push_str("\\\\"),
            '\n' => o.push_str("\\n"),
            '\t' => o.push_str("\\t"),
            c if (c as u32) < 0x20 => o.push_str(&format!("\\u{:04x}", c as u32)),
            c => o.push(c),
        }
    }
    o
}

static LAST_PANIC: std::sync::Mutex<String> = std::sync::Mutex::new(String::new());

fn main() {
    let r = std::panic::catch_unwind(real_main);
    if r.is_err() {
        eprintln!("mvh: uncaught panic: {}", LAST_PANIC.lock().map(|g| g.clone()).unwrap_or_default());
        std::process::exit(3);
    }
}

fn real_main() {
    // silence panic messages of caught panics (each case is run under catch_unwind)
    // (the last message is kept so that a panic which escapes a generator is still reported)
    std::panic::set_hook(Box::new(|i| {
        if let Ok(mut g) = LAST_PANIC.lock() {
            *g = format!("{}", i);
        }
    }));
    util::felt_modulus_check();
    let args: Vec<String> = std::env::args().collect();
    if args.len() < 2 {
        eprintln!("usage: mvh export <dir> | mvh gen <prop> <seed> <tier> <outdir>");
        std::process::exit(2);
    }
    match args[1].as_str() {
        "run" => {
            // mvh run <file.masm> <stack csv | -> [adv csv]   (probe: prints the implementation's answer)
            let src = fs::read_to_string(&args[2]).expect("source file");
            let st: Vec<u64> = if args[3] == "-" { vec![] } else { args[3].split(',').map(|x| x.parse().unwrap()).collect() };
            let adv: Vec<u64> = if args.len() > 4 { args[4].split(',').map(|x| x.parse().unwrap()).collect() } else { vec![] };
            match execgen::assemble(None, &src, false) {
                Err(e) => println!("assembly error: {}", e),
                Ok(p) => {
                    let r = util::run_impl(&p, &st, execgen::host_with_advice(&adv), util::Lies::default(), None, "sys,mem");
                    println!("{}", r.answer);
                }
            }
        }
        "aux" => {
            // mvh aux <file.masm> <stack csv|->   (probe: first/last values of the auxiliary columns)
            use winter_prover::Trace;
            let src = fs::read_to_string(&args[2]).expect("source file");
            let st: Vec<u64> = if args[3] == "-" { vec![] } else { args[3].split(',').map(|x| x.parse().unwrap()).collect() };
            let adv: Vec<u64> = if args.len() > 4 && args[4] != "-" { args[4].split(',').map(|x| x.parse().unwrap()).collect() } else { vec![] };
            let ksrc = if args.len() > 5 { Some(fs::read_to_string(&args[5]).expect("kernel file")) } else { None };
            let p = execgen::assemble(ksrc.as_deref(), &src, false).expect("assembles");
            let (mut trace, inputs) = airmon::execute_trace(&p, &st, &adv).expect("executes");
            let ctx = airmon::AirCtx::new(&trace, inputs);
            let rand: Vec<vm_core::Felt> = (0..16).map(|i| vm_core::Felt::new(1000 + i * 7919)).collect();
            let aux = trace.build_aux_segment::<vm_core::Felt>(&[], &rand).unwrap();
            println!("len={} last_step={} summary={:?}", ctx.len, ctx.last_step, trace.trace_len_summary());
            println!("kernel product = {}", vm_core::StarkField::as_int(&c12::kernel_product(&p, &rand)));
            for c in 0..aux.num_cols() {
                let col: Vec<u64> = (0..ctx.len).map(|r| vm_core::StarkField::as_int(&aux.get(c, r))).collect();
                let first_not_one = col.iter().position(|x| *x != 1);
                let last_not_one = col.iter().rposition(|x| *x != 1);
                if std::env::var("MVH_COL").ok().and_then(|v| v.parse::<usize>().ok()) == Some(c) {
                    for r in 1..ctx.len {
                        if col[r] != col[r - 1] {
                            println!("   row {} -> {}: {} -> {} (opcode at {} = {})", r - 1, r, col[r - 1], col[r], r - 1, ctx.opcode_at(r - 1));
                            let off = air::trace::DECODER_TRACE_OFFSET;
                            let ms = trace.main_segment();
                            for rr in [r - 1, r] {
                                let cells: Vec<u64> = (0..24).map(|c| vm_core::StarkField::as_int(&ms.get(off + c, rr))).collect();
                                println!("        decoder row {}: addr={} opbits={:?} h={:?} rest={:?}", rr, cells[0], &cells[1..8], &cells[8..16], &cells[16..24]);
                            }
                        }
                    }
                }
                println!("col {} {}: first={} at_last_step={} very_last={} first!=1@{:?} last!=1@{:?}", c, c12::AUX_NAMES[c], col[0], col[ctx.last_step], col[ctx.len - 1], first_not_one, last_not_one);
            }
        }
        "decode" => {
            // mvh decode <kind> <hex>   (probe; panics are not caught so that the message is visible)
            std::panic::set_hook(Box::new(|i| eprintln!("PANIC: {}", i)));
            let bytes: Vec<u8> = (0..args[3].len() / 2).map(|i| u8::from_str_radix(&args[3][2 * i..2 * i + 2], 16).unwrap()).collect();
            match args[2].as_str() {
                "program" => println!("{:?}", assembly::ast::ProgramAst::from_bytes(&bytes).map(|_| "ok")),
                "module" => println!("{:?}", assembly::ast::ModuleAst::from_bytes(&bytes).map(|_| "ok")),
                _ => println!("unknown kind"),
            }
        }
        "export" => {
            export::export_all(&args[2]);
        }
        "gen" => {
            let prop = args[2].as_str();
            let seed: u64 = args[3].parse().expect("seed");
            let thorough = args[4] == "thorough";
            let outdir = &args[5];
            let mut em = Emitter::new();
            match prop {
                "C08" => c08::generate(&mut em, seed, thorough),
                "C09" => c09::generate(&mut em, seed, thorough),
                "C10" => c10::generate_c10(&mut em, seed, thorough),
                "C19" => c10::generate_c19(&mut em, seed, thorough),
                "C11" => c11::generate(&mut em, seed, thorough),
                "C12" => c12::generate(&mut em, seed, thorough),
                "C13" => c13::generate(&mut em, seed, thorough),
                "C15" => c15::generate(&mut em, seed, thorough),
                "C16" => c16::generate(&mut em, seed, thorough),
                "C17" => c17::generate(&mut em, seed, thorough),
                "C18" => c18::generate(&mut em, seed, thorough),
                "C01" => c01::generate(&mut em, seed, thorough),
                "C02" => c02::generate(&mut em, seed, thorough),
                "C03" => c03::generate(&mut em, seed, thorough),
                "C04" => c04::generate(&mut em, seed, thorough),
                "C05" => c05::generate(&mut em, seed, thorough),
                "C06" => c06::generate(&mut em, seed, thorough),
                "C07" => c07::generate(&mut em, seed, thorough),
                "C14" => c14::generate(&mut em, seed, thorough),
                other => {
                    eprintln!("unknown property {}", other);
                    std::process::exit(2);
                }
            }
            fs::create_dir_all(outdir).unwrap();
            let mut f = fs::File::create(format!("{}/{}.req", outdir, prop)).unwrap();
            for l in &em.req {
                writeln!(f, "{}", l).unwrap();
            }
            let mut f = fs::File::create(format!("{}/{}.impl", outdir, prop)).unwrap();
            for l in &em.ans {
                writeln!(f, "{}", l).unwrap();
            }
            let mut f = fs::File::create(format!("{}/{}.stats.json", outdir, prop)).unwrap();
            let stats: Vec<String> = em
                .stats
                .iter()
                .map(|(k, v)| format!("\"{}\": \"{}\"", json_escape(k), json_escape(v)))
                .collect();
            let of: Vec<String> =
                em.oracle_failures.iter().map(|s| format!("\"{}\"", json_escape(s))).collect();
            let notes: Vec<String> = em.notes.iter().map(|s| format!("\"{}\"", json_escape(s))).collect();
            writeln!(
                f,
                "{{\"cases\": {}, \"stats\": {{{}}}, \"oracle_failures\": [{}], \"notes\": [{}]}}",
                em.req.len(),
                stats.join(", "),
                of.join(", "),
                notes.join(", ")
            )
            .unwrap();
        }
        _ => {
            eprintln!("unknown command");
            std::process::exit(2);
        }
    }
}
