//! C18 — standard-library memory, stack and collection utilities keep their contracts.
//!
//! Oracles: the statement's own contracts for truncate_stack / memcopy / pipe_*, miden-crypto's
//! native `Smt` and `Mmr` for the collections.  Every run is also replayed on the Lean executor.
use crate::execgen::*;
use crate::util::*;
use crate::Emitter;
use processor::{AdviceInputs, DefaultHost, MemAdviceProvider};
use std::collections::BTreeMap;
use vm_core::{
    crypto::{
        hash::{Rpo256, RpoDigest},
        merkle::{MerkleStore, Mmr, Smt},
    },
    Felt, StarkField, Word, ZERO,
};

fn parse_field<'a>(ans: &'a str, key: &str) -> Option<&'a str> {
    ans.split(' ').find_map(|t| t.strip_prefix(key))
}

fn parse_stack(ans: &str) -> Vec<u64> {
    parse_field(ans, "stack=").map(|s| s.split(',').filter_map(|x| x.parse().ok()).collect()).unwrap_or_default()
}

/// memory of context 0 as address -> word
fn parse_mem(ans: &str) -> BTreeMap<u64, [u64; 4]> {
    let mut m = BTreeMap::new();
    if let Some(s) = parse_field(ans, "mem=") {
        for item in s.split(';').filter(|x| !x.is_empty()) {
            let parts: Vec<&str> = item.split(':').collect();
            if parts.len() == 3 && parts[0] == "0" {
                let w: Vec<u64> = parts[2].split(',').filter_map(|x| x.parse().ok()).collect();
                if w.len() == 4 {
                    m.insert(parts[1].parse().unwrap(), [w[0], w[1], w[2], w[3]]);
                }
            }
        }
    }
    m
}

fn replay(em: &mut Emitter, program: &vm_core::Program, stack: &[u64], run: &ImplRun, out: &str) {
    let req = render_exec_request(&ExecReq { program, stack: stack.to_vec(), max_cycles: None, out }, &run.tape);
    if run.answer.starts_with("err Other") || run.answer.starts_with("bad-") || run.answer.starts_with("skip") {
        em.emit(req, format!("skip {}", run.answer));
    } else {
        em.emit(req, run.answer.clone());
    }
}

fn host(adv: &[u64], store: Option<MerkleStore>, map: Vec<(RpoDigest, Vec<Felt>)>) -> DefaultHost<MemAdviceProvider> {
    let mut inputs = AdviceInputs::default().with_stack_values(adv.iter().copied()).unwrap();
    if let Some(s) = store {
        inputs = inputs.with_merkle_store(s);
    }
    inputs = inputs.with_map(map.into_iter().map(|(k, v)| (k.into(), v)));
    DefaultHost::new(MemAdviceProvider::from(inputs))
}

fn word_top_first(w: &Word) -> Vec<u64> {
    vec![w[3].as_int(), w[2].as_int(), w[1].as_int(), w[0].as_int()]
}

fn push_word(w: &Word) -> String {
    // after these pushes the top of the stack holds element 3
    format!("push.{}.{}.{}.{}", w[0].as_int(), w[1].as_int(), w[2].as_int(), w[3].as_int())
}

// ---- truncate_stack -----------------------------------------------------------------------------

fn truncate_cases(em: &mut Emitter, rng: &mut Rng, thorough: bool) -> u64 {
    let src = "use.std::sys\nbegin exec.sys::truncate_stack end";
    let p = match assemble(None, src, false) {
        Ok(p) => p,
        Err(e) => {
            em.oracle_failures.push(format!("C18 sys::truncate_stack does not assemble: {}", e));
            return 0;
        }
    };
    let mut n = 0;
    let maxd = if thorough { 120 } else { 56 };
    for depth in 0..=maxd {
        for rep in 0..(if thorough { 4 } else { 2 }) {
            let st: Vec<u64> = (0..depth).map(|i| if rep == 0 { 1000 + i as u64 } else { rng.felt() }).collect();
            let run = run_impl(&p, &st, DefaultHost::default(), Lies::default(), None, "sys");
            let got = parse_stack(&run.answer);
            let mut want: Vec<u64> = st.iter().take(16).copied().collect();
            want.resize(16, 0);
            if !run.ok || got != want {
                em.oracle_failures.push(format!(
                    "C18 sys::truncate_stack on a stack of depth {} must leave exactly the original top 16: got {} want {:?}",
                    depth, run.answer, want
                ));
            }
            replay(em, &p, &st, &run, "sys");
            n += 1;
        }
    }
    // inside a larger program: values pushed before and the frame pointer are restored
    let src2 = "use.std::sys\nproc.f.3 push.7 loc_store.1 exec.sys::truncate_stack loc_load.1 end\nbegin push.1.2.3.4.5 exec.f end";
    if let Ok(p2) = assemble(None, src2, false) {
        let st: Vec<u64> = (0..23).map(|i| 50 + i).collect();
        let run = run_impl(&p2, &st, DefaultHost::default(), Lies::default(), None, "sys");
        let got = parse_stack(&run.answer);
        // after the pushes the stack is 5,4,3,2,1,50,...; truncate keeps 16, then loc_load pushes 7
        let mut want = vec![7u64, 5, 4, 3, 2, 1];
        want.extend((0..11).map(|i| 50 + i));
        if !run.ok || got != want {
            em.oracle_failures.push(format!("C18 sys::truncate_stack inside a procedure with locals: got {} want {:?}", run.answer, want));
        }
        replay(em, &p2, &st, &run, "sys");
        n += 1;
    }
    n
}

// ---- memcopy -------------------------------------------------------------------------------------

fn memcopy_cases(em: &mut Emitter, rng: &mut Rng, thorough: bool) -> u64 {
    let mut n = 0;
    let lens: Vec<u64> = if thorough { (0..=9).collect() } else { vec![0, 1, 2, 3, 5] };
    let base = 100u64;
    for &len in &lens {
        // read and write windows at every relative offset in -len-1 ..= len+1 (overlap both ways, adjacency, identity)
        let span = len as i64 + 1;
        for off in -span..=span {
            for hi in [false, true] {
                if hi && !(off == 1 || off == -1 || len == 0) && !thorough {
                    continue;
                }
                // `hi`: windows that end at the top of the address space
                let read = if hi { 4294967295 - len.saturating_sub(1) - off.max(0) as u64 } else { base + 20 };
                let write = (read as i64 + off) as u64;
                let window = 2 * len + 6;
                let lo = read.min(write) - 2;
                // initial memory: distinct words around both windows
                let mut mem: BTreeMap<u64, [u64; 4]> = BTreeMap::new();
                let mut src = String::from("use.std::mem\nbegin\n");
                for a in lo..lo + window {
                    if a > 4294967295 {
                        break;
                    }
                    let w = [rng.felt(), a, 3, rng.below(5)];
                    mem.insert(a, w);
                    src.push_str(&format!("push.{}.{}.{}.{} push.{} mem_storew dropw\n", w[0], w[1], w[2], w[3], a));
                }
                src.push_str(&format!("push.{} push.{} push.{} exec.mem::memcopy end", write, read, len));
                let p = match assemble(None, &src, false) {
                    Ok(p) => p,
                    Err(e) => {
                        em.oracle_failures.push(format!("C18 memcopy program does not assemble: {}", e));
                        continue;
                    }
                };
                // documented behaviour: word-by-word forward copy
                let mut want = mem.clone();
                for i in 0..len {
                    let v = want.get(&(read + i)).copied().unwrap_or([0; 4]);
                    want.insert(write + i, v);
                }
                want.retain(|_, w| w.iter().any(|x| *x != 0));
                let st: Vec<u64> = vec![11, 12, 13, 14, 15, 16, 17, 18, 19, 20, 21, 22, 23, 24, 25, 26, 27, 28];
                let run = run_impl(&p, &st, DefaultHost::default(), Lies::default(), None, "mem");
                let got_mem = parse_mem(&run.answer);
                let got_st = parse_stack(&run.answer);
                if !run.ok {
                    em.oracle_failures.push(format!("C18 mem::memcopy failed for n={} read_ptr={} write_ptr={}: {}", len, read, write, run.answer));
                } else {
                    if got_mem != want {
                        let bad: Vec<String> = want
                            .keys()
                            .chain(got_mem.keys())
                            .filter(|a| want.get(a) != got_mem.get(a))
                            .take(3)
                            .map(|a| format!("addr {}: got {:?} want {:?}", a, got_mem.get(a), want.get(a)))
                            .collect();
                        em.oracle_failures.push(format!(
                            "C18 mem::memcopy moved the wrong words for n={} read_ptr-write_ptr offset {} ({}): {}",
                            len, off, if hi { "top of address space" } else { "low addresses" }, bad.join("; ")
                        ));
                    }
                    if got_st != st {
                        em.oracle_failures.push(format!("C18 mem::memcopy must consume exactly [n, read_ptr, write_ptr] (n={}): stack {:?}", len, got_st));
                    }
                }
                replay(em, &p, &st, &run, "mem");
                n += 1;
            }
        }
    }
    n
}

// ---- pipe_* ----------------------------------------------------------------------------------------

fn pipe_cases(em: &mut Emitter, rng: &mut Rng, thorough: bool) -> u64 {
    let mut n = 0;
    let maxw = if thorough { 21 } else { 9 };
    for words in 0..=maxw {
        for variant in 0..3 {
            // 0: pipe_words_to_memory, 1: pipe_preimage_to_memory with the right commitment, 2: with a wrong one
            let ptr = match (words + variant) % 3 {
                0 => 1000u64,
                1 => rng.below(1 << 30),
                _ => 4294967295 - words as u64 - 1,
            };
            let data: Vec<u64> = (0..4 * words).map(|_| rng.felt()).collect();
            let extra: Vec<u64> = (0..5).map(|_| rng.felt()).collect(); // must stay on the advice stack
            let mut adv = data.clone();
            adv.extend_from_slice(&extra);
            let felts: Vec<Felt> = data.iter().map(|x| Felt::new(*x)).collect();
            let digest = Rpo256::hash_elements(&felts);
            let hash_top_first: Vec<u64> = digest.as_elements().iter().rev().map(|f| f.as_int()).collect();
            let tail = [5u64, 6, 7];
            let (src, st, want_ok, want_stack): (String, Vec<u64>, bool, Vec<u64>) = match variant {
                0 => {
                    let mut st = vec![words as u64, ptr];
                    st.extend_from_slice(&tail);
                    let mut w = hash_top_first.clone();
                    w.push(ptr + words as u64);
                    w.extend_from_slice(&tail);
                    ("use.std::mem\nbegin exec.mem::pipe_words_to_memory end".to_string(), st, true, w)
                }
                v => {
                    let mut com = hash_top_first.clone();
                    if v == 2 {
                        let k = rng.below(4) as usize;
                        com[k] = (com[k] + 1) % Felt::MODULUS;
                    }
                    let mut st = vec![words as u64, ptr];
                    st.extend_from_slice(&com);
                    st.extend_from_slice(&tail);
                    let mut w = vec![ptr + words as u64];
                    w.extend_from_slice(&tail);
                    ("use.std::mem\nbegin exec.mem::pipe_preimage_to_memory end".to_string(), st, v == 1, w)
                }
            };
            let p = match assemble(None, &src, false) {
                Ok(p) => p,
                Err(e) => {
                    em.oracle_failures.push(format!("C18 pipe program does not assemble: {}", e));
                    continue;
                }
            };
            let run = run_impl(&p, &st, host(&adv, None, vec![]), Lies::default(), None, "mem");
            let what = format!("{} num_words={} write_ptr={}", if variant == 0 { "pipe_words_to_memory" } else { "pipe_preimage_to_memory" }, words, ptr);
            if words == 0 {
                // the hash of the empty sequence is not specified by the procedure's documentation: model agreement only
            } else if want_ok {
                let got = parse_stack(&run.answer);
                if !run.ok || got.len() < want_stack.len() || got[..want_stack.len()] != want_stack[..] || got[want_stack.len()..].iter().any(|x| *x != 0) {
                    em.oracle_failures.push(format!("C18 mem::{}: wrong hash / pointer: got {} want {:?}", what, run.answer, want_stack));
                } else {
                    let got_mem = parse_mem(&run.answer);
                    let mut want_mem = BTreeMap::new();
                    for w in 0..words {
                        let e = &data[4 * w..4 * w + 4];
                        if e.iter().any(|x| *x != 0) {
                            want_mem.insert(ptr + w as u64, [e[0], e[1], e[2], e[3]]);
                        }
                    }
                    if got_mem != want_mem {
                        em.oracle_failures.push(format!("C18 mem::{}: memory does not hold exactly the piped words: got {:?} want {:?}", what, got_mem, want_mem));
                    }
                    // exactly 4*words advice elements consumed
                    if run.tape.adv.len() != 4 * words {
                        em.oracle_failures.push(format!("C18 mem::{}: consumed {} advice elements instead of {}", what, run.tape.adv.len(), 4 * words));
                    }
                }
            } else if run.ok {
                em.oracle_failures.push(format!("C18 mem::{}: a wrong commitment was accepted", what));
            }
            replay(em, &p, &st, &run, "mem");
            n += 1;
        }
    }
    // pipe_double_words_to_memory with an arbitrary hasher state
    for k in 0..(if thorough { 40 } else { 8 }) {
        let pairs = k % 5;
        let ptr = 3000 + rng.below(100);
        let data: Vec<u64> = (0..8 * pairs).map(|_| rng.felt()).collect();
        let init: Vec<u64> = (0..12).map(|_| rng.felt()).collect();
        let mut st: Vec<u64> = init.iter().rev().copied().collect();
        st.push(ptr);
        st.push(ptr + 2 * pairs as u64);
        st.push(42);
        let mut state: Vec<Felt> = init.iter().map(|x| Felt::new(*x)).collect();
        for d in 0..pairs {
            for i in 0..8 {
                state[4 + i] = Felt::new(data[8 * d + i]);
            }
            let mut arr: [Felt; 12] = state.clone().try_into().unwrap();
            Rpo256::apply_permutation(&mut arr);
            state = arr.to_vec();
        }
        let mut want: Vec<u64> = state.iter().rev().map(|f| f.as_int()).collect();
        want.push(ptr + 2 * pairs as u64);
        want.push(42);
        let src = "use.std::mem\nbegin exec.mem::pipe_double_words_to_memory end";
        if let Ok(p) = assemble(None, src, false) {
            let run = run_impl(&p, &st, host(&data, None, vec![]), Lies::default(), None, "mem");
            let got = parse_stack(&run.answer);
            if !run.ok || got.len() < want.len() || got[..want.len()] != want[..] {
                em.oracle_failures.push(format!("C18 mem::pipe_double_words_to_memory with {} double words: got {} want {:?}", pairs, run.answer, want));
            }
            replay(em, &p, &st, &run, "mem");
            n += 1;
        }
    }
    n
}

// ---- sparse Merkle tree ----------------------------------------------------------------------------

fn smt_advice(smt: &Smt) -> (MerkleStore, Vec<(RpoDigest, Vec<Felt>)>) {
    let store = MerkleStore::from(smt);
    let map = smt.leaves().map(|(_, leaf)| (leaf.hash(), leaf.to_elements())).collect();
    (store, map)
}

fn smt_cases(em: &mut Emitter, rng: &mut Rng, thorough: bool) -> u64 {
    let mut n = 0;
    let set_src = "use.std::collections::smt\nbegin exec.smt::set end";
    let get_src = "use.std::collections::smt\nbegin exec.smt::get end";
    let (pset, pget) = match (assemble(None, set_src, false), assemble(None, get_src, false)) {
        (Ok(a), Ok(b)) => (a, b),
        _ => {
            em.oracle_failures.push("C18 smt::set / smt::get do not assemble".into());
            return 0;
        }
    };
    // directed: a key whose own leaf is empty but whose lower elements equal the leaf index of an
    // occupied leaf; the empty value into the empty leaf, a get, an insertion and the removal
    for j in 0..3usize {
        for rep in 0..(if thorough { 4 } else { 1 }) {
            let a3 = if rep % 2 == 0 { 42 + j as u64 } else { rng.felt() };
            let mut smt = Smt::new();
            let occupied = RpoDigest::new([Felt::new(101), Felt::new(102), Felt::new(103), Felt::new(a3)]);
            smt.insert(occupied, [Felt::new(1), Felt::new(2), Felt::new(3), Felt::new(4)]);
            if rep >= 2 {
                smt.insert(RpoDigest::new([Felt::new(5), Felt::new(a3), Felt::new(7), Felt::new(a3.wrapping_add(9) % Felt::MODULUS)]), [Felt::new(9); 4]);
            }
            let mut ke = [Felt::new(1), Felt::new(12), Felt::new(3), Felt::new((a3 ^ 0x5555) % Felt::MODULUS)];
            ke[j] = Felt::new(a3);
            let key = RpoDigest::new(ke);
            let v: Word = [Felt::new(77), Felt::new(0), Felt::new(78), Felt::new(79)];
            for (opname, value) in [("set-empty", Some([ZERO; 4])), ("get", None), ("set", Some(v)), ("get", None), ("remove", Some([ZERO; 4])), ("get", None)] {
                let (store, map) = smt_advice(&smt);
                let (p, st, want): (&vm_core::Program, Vec<u64>, Vec<u64>) = match value {
                    Some(val) => {
                        let mut st: Vec<u64> = word_top_first(&val);
                        st.extend(key.as_elements().iter().rev().map(|f| f.as_int()));
                        st.extend(word_top_first(&smt.root().into()));
                        st.push(9);
                        let old = smt.insert(key, val);
                        let mut want = word_top_first(&old);
                        want.extend(word_top_first(&smt.root().into()));
                        want.push(9);
                        (&pset, st, want)
                    }
                    None => {
                        let mut st: Vec<u64> = key.as_elements().iter().rev().map(|f| f.as_int()).collect();
                        st.extend(word_top_first(&smt.root().into()));
                        st.push(9);
                        let mut want = word_top_first(&smt.get_value(&key));
                        want.extend(word_top_first(&smt.root().into()));
                        want.push(9);
                        (&pget, st, want)
                    }
                };
                let run = run_impl(p, &st, host(&[], Some(store), map), Lies::default(), None, "");
                let got = parse_stack(&run.answer);
                if !run.ok || got.len() < want.len() || got[..want.len()] != want[..] {
                    em.oracle_failures.push(format!(
                        "C18 smt::{} on a key whose element {} equals the leaf index {} of an occupied leaf differs from the native Smt: got {} want {:?}",
                        opname, j, a3, run.answer, want
                    ));
                }
                replay(em, p, &st, &run, "");
                n += 1;
            }
        }
    }
    let nseq = if thorough { 40 } else { 6 };
    for seq in 0..nseq {
        let mut smt = Smt::new();
        // a small key universe with pairwise distinct leaf indices (the procedures implement
        // single-entry leaves only), boundary leaf indices included
        let nkeys = 2 + rng.below(4) as usize;
        let mut keys: Vec<RpoDigest> = Vec::new();
        for k in 0..nkeys {
            let msb = match (seq + k) % 5 {
                0 => k as u64,
                1 => Felt::MODULUS - 1 - k as u64,
                2 => (1u64 << 63) + k as u64,
                _ => rng.felt(),
            };
            if keys.iter().any(|d| d.as_elements()[3].as_int() == msb) {
                continue;
            }
            keys.push(RpoDigest::new([Felt::new(rng.felt()), Felt::new(rng.felt()), Felt::new(rng.felt()), Felt::new(msb)]));
        }
        // index confusions: the lower key elements of some keys equal the leaf index (element 3) of
        // other keys of the universe, so that a procedure reading the wrong key element as the leaf
        // index lands on an occupied / different leaf
        let msbs: Vec<u64> = keys.iter().map(|d| d.as_elements()[3].as_int()).collect();
        for k in 0..keys.len() {
            let e = keys[k].as_elements().to_vec();
            let mut ne = [e[0], e[1], e[2], e[3]];
            for j in 0..3 {
                if rng.chance(1, 2) {
                    let other = msbs[(k + 1 + rng.below(msbs.len() as u64 - 1) as usize) % msbs.len()];
                    ne[j] = Felt::new(other);
                }
            }
            keys[k] = RpoDigest::new(ne);
        }
        let steps = if thorough { 14 } else { 8 };
        let mut chain = String::from("use.std::collections::smt\nbegin\n");
        let chain_start = smt.clone();
        let mut history = String::new();
        for _ in 0..steps {
            let key = *rng.pick(&keys);
            let do_get = rng.chance(1, 3);
            if do_get {
                let want_v: Word = smt.get_value(&key);
                let mut st: Vec<u64> = key.as_elements().iter().rev().map(|f| f.as_int()).collect();
                st.extend(word_top_first(&smt.root().into()));
                st.push(9);
                let (store, map) = smt_advice(&smt);
                let run = run_impl(&pget, &st, host(&[], Some(store), map), Lies::default(), None, "");
                let mut want = word_top_first(&want_v);
                want.extend(word_top_first(&smt.root().into()));
                want.push(9);
                let got = parse_stack(&run.answer);
                history.push_str(&format!("get({}) ", key.as_elements()[3].as_int()));
                if !run.ok || got.len() < want.len() || got[..want.len()] != want[..] {
                    em.oracle_failures.push(format!("C18 smt::get differs from the native Smt after [{}]: got {} want {:?}", history.trim(), run.answer, want));
                }
                replay(em, &pget, &st, &run, "");
                chain.push_str(&format!("{} exec.smt::get {} assert_eqw\n", push_word(&key.into()), push_word(&want_v)));
            } else {
                // insert, update or remove (empty value)
                let value: Word = if rng.chance(1, 4) { [ZERO; 4] } else { [Felt::new(rng.felt()), Felt::new(rng.below(3)), Felt::new(rng.felt()), Felt::new(rng.felt())] };
                let mut st: Vec<u64> = word_top_first(&value);
                st.extend(key.as_elements().iter().rev().map(|f| f.as_int()));
                st.extend(word_top_first(&smt.root().into()));
                st.push(9);
                let (store, map) = smt_advice(&smt);
                let run = run_impl(&pset, &st, host(&[], Some(store), map), Lies::default(), None, "");
                let old = smt.insert(key, value);
                let mut want = word_top_first(&old);
                want.extend(word_top_first(&smt.root().into()));
                want.push(9);
                let got = parse_stack(&run.answer);
                history.push_str(&format!("set({},{}) ", key.as_elements()[3].as_int(), if value == [ZERO; 4] { "empty" } else { "value" }));
                if !run.ok || got.len() < want.len() || got[..want.len()] != want[..] {
                    em.oracle_failures.push(format!("C18 smt::set differs from the native Smt after [{}]: got {} want {:?}", history.trim(), run.answer, want));
                }
                replay(em, &pset, &st, &run, "");
                chain.push_str(&format!("{} {} exec.smt::set {} assert_eqw\n", push_word(&key.into()), push_word(&value), push_word(&old)));
            }
            n += 1;
        }
        // the whole history inside one program (the advice provider evolves inside the VM)
        chain.push_str("end");
        match assemble(None, &chain, false) {
            Err(e) => em.oracle_failures.push(format!("C18 smt chain program does not assemble: {}", e)),
            Ok(p) => {
                let mut st = word_top_first(&chain_start.root().into());
                st.push(9);
                let (store, map) = smt_advice(&chain_start);
                let run = run_impl(&p, &st, host(&[], Some(store), map), Lies::default(), None, "");
                let mut want = word_top_first(&smt.root().into());
                want.push(9);
                let got = parse_stack(&run.answer);
                if !run.ok || got.len() < want.len() || got[..want.len()] != want[..] {
                    em.oracle_failures.push(format!("C18 smt history in one program [{}] differs from the native Smt: got {} want root {:?}", history.trim(), run.answer, want));
                }
                replay(em, &p, &st, &run, "");
                n += 1;
            }
        }
    }
    n
}

// ---- Merkle mountain range -----------------------------------------------------------------------------

fn mmr_cases(em: &mut Emitter, rng: &mut Rng, thorough: bool) -> u64 {
    let mut n = 0;
    let sizes: Vec<usize> = if thorough { (1..=40).collect() } else { vec![1, 2, 3, 4, 7, 8, 13, 16, 21] };
    let ptr = 1000u64;
    for &size in &sizes {
        let leaves: Vec<Word> = (0..size).map(|i| [Felt::new(rng.felt()), Felt::new(i as u64), ZERO, Felt::new(rng.below(4))]).collect();
        let mut mmr = Mmr::new();
        let mut src = String::from("use.std::collections::mmr\nbegin\n");
        for l in &leaves {
            mmr.add((*l).into());
            src.push_str(&format!("push.{} {} exec.mmr::add\n", ptr, push_word(l)));
        }
        // read every leaf back and compare inside the VM, then pack
        for (pos, l) in leaves.iter().enumerate() {
            src.push_str(&format!("push.{} push.{} exec.mmr::get {} assert_eqw\n", ptr, pos, push_word(l)));
        }
        src.push_str(&format!("push.{} exec.mmr::pack end", ptr));
        let p = match assemble(None, &src, false) {
            Ok(p) => p,
            Err(e) => {
                em.oracle_failures.push(format!("C18 mmr program does not assemble: {}", e));
                continue;
            }
        };
        let acc = mmr.peaks(mmr.forest()).unwrap();
        let st = vec![9u64];
        let run = run_impl(&p, &st, DefaultHost::default(), Lies::default(), None, "mem");
        let mut want = word_top_first(&acc.hash_peaks().into());
        want.push(9);
        let got = parse_stack(&run.answer);
        if !run.ok || got.len() < want.len() || got[..want.len()] != want[..] {
            em.oracle_failures.push(format!("C18 mmr: {} x add, get of every position, pack: got {} want {:?}", size, &run.answer[..run.answer.len().min(300)], want));
        } else {
            let mem = parse_mem(&run.answer);
            let mut want_mem: BTreeMap<u64, [u64; 4]> = BTreeMap::new();
            want_mem.insert(ptr, [size as u64, 0, 0, 0]);
            for (i, pk) in acc.peaks().iter().enumerate() {
                let e = pk.as_elements();
                want_mem.insert(ptr + 1 + i as u64, [e[0].as_int(), e[1].as_int(), e[2].as_int(), e[3].as_int()]);
            }
            let got_peaks: BTreeMap<u64, [u64; 4]> = mem.into_iter().filter(|(a, _)| *a >= ptr && *a < ptr + 40).collect();
            if got_peaks != want_mem {
                em.oracle_failures.push(format!("C18 mmr: peaks in memory after {} adds differ from the native Mmr: got {:?} want {:?}", size, got_peaks, want_mem));
            }
        }
        replay(em, &p, &st, &run, "mem");
        n += 1;
    }
    // arithmetic helpers
    for (procname, f) in [
        ("num_leaves_to_num_peaks", (|x: u64| x.count_ones() as u64) as fn(u64) -> u64),
        ("num_peaks_to_message_size", (|x: u64| { let m = x.max(16); m + (m & 1) }) as fn(u64) -> u64),
        ("trailing_ones", (|x: u64| x.trailing_ones() as u64) as fn(u64) -> u64),
    ] {
        let src = format!("use.std::collections::mmr\nbegin exec.mmr::{} end", procname);
        let p = match assemble(None, &src, false) {
            Ok(p) => p,
            Err(_) => continue,
        };
        let mut vals: Vec<u64> = vec![0, 1, 2, 3, 7, 8, 15, 16, 17, 31, 32, 33, 0xFFFF, 0x10000, 0x7FFF_FFFF, 0x8000_0000, 0xFFFF_FFFF];
        if procname == "trailing_ones" {
            vals.extend([0x1_0000_0000, 0x1_FFFF_FFFF, 0xFFFF_FFFF_FFFF, (1 << 62) - 1, 0x7FFF_FFFF_FFFF_FFFF, 0xFFFF_FFFE_FFFF_FFFF]);
        }
        if procname == "num_peaks_to_message_size" {
            vals.retain(|v| *v <= 0x10000);
        }
        for _ in 0..(if thorough { 100 } else { 10 }) {
            vals.push(rng.below(1 << 32));
        }
        for v in vals {
            let st = vec![v, 77];
            let run = run_impl(&p, &st, DefaultHost::default(), Lies::default(), None, "");
            let got = parse_stack(&run.answer);
            let want = vec![f(v), 77];
            if !run.ok || got.len() < 2 || got[..2] != want[..] || got[2..].iter().any(|x| *x != 0) {
                em.oracle_failures.push(format!("C18 mmr::{}({}) got {} want {:?}", procname, v, run.answer, want));
            }
            replay(em, &p, &st, &run, "");
            n += 1;
        }
    }
    n
}

/// MAST of the small procedures, for the Lean theorems.
pub fn export_stdlib_sys(dir: &str) {
    let mut s = String::from(
        "-- GENERATED by `mvh export`: MAST of std::sys / std::mem procedures as compiled by the real assembler from /repo/stdlib/asm.\nimport Miden.Model.Exec\nnamespace Miden.Generated\n",
    );
    for (name, src) in [
        ("sys_truncate_stack", "use.std::sys\nbegin exec.sys::truncate_stack end"),
        ("mem_memcopy", "use.std::mem\nbegin exec.mem::memcopy end"),
        ("native_hash_memory_even", "use.std::crypto::hashes::native\nbegin exec.native::hash_memory_even end"),
        ("mem_pipe_double_words_to_memory", "use.std::mem\nbegin exec.mem::pipe_double_words_to_memory end"),
    ] {
        match assemble(None, src, false) {
            Ok(p) => {
                s.push_str(&format!("def {} : Block :=\n  {}\n", name, lean_block(p.root())));
            }
            Err(e) => s.push_str(&format!("-- {} does not assemble: {}\n", name, e.replace('\n', " "))),
        }
    }
    s.push_str("end Miden.Generated\n");
    let path = format!("{}/StdlibSys.lean", dir);
    if std::fs::read_to_string(&path).map(|o| o != s).unwrap_or(true) {
        std::fs::write(&path, s).unwrap();
    }
}

pub fn lean_block(b: &vm_core::code_blocks::CodeBlock) -> String {
    use vm_core::code_blocks::CodeBlock;
    match b {
        CodeBlock::Span(_) => {
            let ops: Vec<String> = block_ops(b).iter().map(crate::c05::lean_op_pub).collect();
            format!("(.span [{}])", ops.join(", "))
        }
        CodeBlock::Join(j) => format!("(.join {} {})", lean_block(j.first()), lean_block(j.second())),
        CodeBlock::Split(sp) => format!("(.split {} {})", lean_block(sp.on_true()), lean_block(sp.on_false())),
        CodeBlock::Loop(l) => format!("(.loop {})", lean_block(l.body())),
        CodeBlock::Call(c) => {
            let h: Vec<String> = c.fn_hash().as_elements().iter().map(|f| f.as_int().to_string()).collect();
            format!("(.call ⟨{}⟩ {})", h.join(", "), c.is_syscall())
        }
        CodeBlock::Dyn(_) => ".dyn".to_string(),
        CodeBlock::Proxy(p) => {
            let h: Vec<String> = p.hash().as_elements().iter().map(|f| f.as_int().to_string()).collect();
            format!("(.proxy ⟨{}⟩)", h.join(", "))
        }
    }
}

pub fn generate(em: &mut Emitter, seed: u64, thorough: bool) {
    let mut rng = Rng::new(seed ^ 0xC18);
    let a = truncate_cases(em, &mut rng, thorough);
    em.stat("truncate_stack_cases", a);
    let b = memcopy_cases(em, &mut rng, thorough);
    em.stat("memcopy_cases", b);
    let c = pipe_cases(em, &mut rng, thorough);
    em.stat("pipe_cases", c);
    let d = smt_cases(em, &mut rng, thorough);
    em.stat("smt_operations", d);
    let e = mmr_cases(em, &mut rng, thorough);
    em.stat("mmr_cases", e);
}
