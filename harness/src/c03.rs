//! C03 — honest execution traces satisfy the entire AIR (direct monitor on the real code).
use crate::airmon::*;
use crate::execgen::*;
use crate::progs::*;
use crate::util::*;
use crate::Emitter;
use vm_core::{Felt, StarkField};

pub fn check_trace(em: &mut Emitter, what: &str, src: &str, p: &vm_core::Program, st: &[u64], adv: &[u64], rng: &mut Rng, counters: &mut [u64; 4]) {
    let (mut trace, inputs) = match execute_trace(p, st, adv) {
        Ok(x) => x,
        Err(e) => {
            if e == "PANIC" {
                em.oracle_failures.push(format!("C03 trace construction panicked ({}): `{}` stack={:?}", what, src, st));
            }
            return;
        }
    };
    counters[0] += 1;
    let ctx = AirCtx::new(&trace, inputs);
    counters[1] += ctx.len as u64;
    // power of two, large enough for every component + the random row
    let s = *trace.trace_len_summary();
    // chiplet rows recomputed from the per-chiplet lengths (+1: the mandatory padding row after the
    // last chiplet), not taken from the implementation's own total
    let cl = s.chiplets_trace_len();
    let chiplet_rows = cl.hash_chiplet_len() + cl.bitwise_chiplet_len() + cl.memory_chiplet_len() + cl.kernel_rom_len() + 1;
    // main: executed cycles + a HALT row; every component is followed by the random row
    let need = (s.main_trace_len() + 1).max(s.range_trace_len()).max(chiplet_rows) + 1;
    // the Lean model of the rule on the same component lengths
    em.emit(format!("tracelen {} {} {}", s.main_trace_len(), s.range_trace_len(), chiplet_rows - 1), format!("len {}", ctx.len));
    if !ctx.len.is_power_of_two() || ctx.len < need || ctx.len < 64 || (ctx.len / 2 >= need && ctx.len > 64) {
        em.oracle_failures.push(format!("C03 trace length {} is not the least power of two >= max(64, {}) ({}): `{}`", ctx.len, need, what, src));
    }
    // tie of the Lean model of honest rows (Model/Honest.lean: helper registers, depth helper column,
    // next-row stack cells) to the rows of this real trace; subject of Props/C03Air.lean
    emit_hrows(em, &ctx, s.main_trace_len(), counters[0]);
    let hv = ctx.honest_violations();
    // u32 arithmetic applied to operands >= 2^32 is documented as undefined: the VM executes it but
    // the row cannot satisfy the limb constraints. Reported as its own (known) class.
    let undefined_u32 = |step: usize| -> bool {
        let opc = ctx.opcode_at(step);
        let nops = match opc {
            64 | 66 | 68 | 70 => 2,
            76 | 78 => 3,
            _ => 0,
        };
        (0..nops).any(|i| ctx.rows[step][air::trace::STACK_TRACE_OFFSET + i].as_int() >= (1 << 32))
    };
    let real: Vec<&(usize, usize)> = hv.iter().filter(|(s, _)| !undefined_u32(*s)).collect();
    if let Some((step, ci)) = real.first() {
        em.oracle_failures.push(format!(
            "C03 honest trace violates main transition constraint {} at step {} (opcode {}) [{} violations] ({}): `{}` stack={:?}",
            ci, step, ctx.opcode_at(*step), real.len(), what, src, st
        ));
    } else if let Some((step, ci)) = hv.first() {
        counters[3] += 1;
        if counters[3] <= 3 {
            em.oracle_failures.push(format!(
                "C03 u32 arithmetic on a non-u32 operand executes but violates constraint {} at step {} (opcode {}) ({}): `{}` stack={:?}",
                ci, step, ctx.opcode_at(*step), what, src, st
            ));
        }
    }
    let av = ctx.assertion_violations();
    if let Some(a) = av.first() {
        em.oracle_failures.push(format!("C03 boundary assertion fails: {} ({}): `{}` stack={:?}", a, what, src, st));
    }
    for _ in 0..2 {
        let rand: Vec<Felt> = (0..16).map(|_| Felt::new(rng.next() % P)).collect();
        let (bad, _) = ctx.aux_violations(&mut trace, rand.clone());
        counters[2] += 1;
        if let Some(b) = bad.first() {
            em.oracle_failures.push(format!(
                "C03 auxiliary segment: {} [{} violations] for challenges {:?} ({}): `{}` stack={:?}",
                b, bad.len(), rand.iter().map(|f| f.as_int()).collect::<Vec<_>>(), what, src, st
            ));
        }
    }
}

/// Programs whose range-checker table has to bridge gaps of special sizes: the table bridges the gap
/// between two looked-up 16-bit values with rows whose deltas are powers of three (at most 3^7), so
/// the interesting gaps are the powers of three themselves, their neighbours, and exact multiples of
/// the largest stride (incl. 3^8, 3^9, 3^10), below the first value, between two values, and up to
/// 65535. `u32split` of V < 2^16 looks up exactly {V, 0, 0, 0}.
pub fn range_gap_programs(seed: u64, count: usize) -> Vec<(String, Option<String>, String, Vec<u64>)> {
    let mut gaps: Vec<u64> = Vec::new();
    let mut p3 = 1u64;
    for _ in 0..=10 {
        gaps.extend([p3.saturating_sub(1), p3, p3 + 1]);
        p3 *= 3;
    }
    for k in 1..=29u64 {
        gaps.push(k * 2187);
    }
    for k in [2u64, 4, 5, 7, 8] {
        gaps.extend([k * 729, k * 2187 + 1, k * 2187 - 1, k * 2187 + 729]);
    }
    gaps.retain(|g| *g >= 1 && *g <= 65535);
    gaps.sort();
    gaps.dedup();
    let mut rng = Rng::new(seed ^ 0x3A9E);
    // seed-dependent order, so that short runs rotate over the whole list; the multiples of the
    // largest stride (where a bridging loop ends exactly on a stride boundary) come first
    for i in (1..gaps.len()).rev() {
        let j = rng.below(i as u64 + 1) as usize;
        gaps.swap(i, j);
    }
    gaps.sort_by_key(|g| if g % 2187 == 0 { 0 } else { 1 });
    let mut out = Vec::new();
    let lookup = |v: u64| format!("push.{} u32split drop drop", v);
    // every gap once below the first value and once up to 65535, rotating over runs; two-value gaps
    for (i, g) in gaps.iter().copied().enumerate() {
        if out.len() >= count {
            break;
        }
        if (i as u64 + seed) % 3 == 0 {
            out.push((format!("range gap {} from 0", g), None, format!("begin {} end", lookup(g)), vec![]));
        } else if (i as u64 + seed) % 3 == 1 {
            out.push((format!("range gap {} up to 65535", g), None, format!("begin {} end", lookup(65535 - g)), vec![]));
        } else {
            let room = 65535 - g;
            let a = 1 + rng.below(room.max(2) - 1);
            out.push((
                format!("range gap {} between {} and {}", g, a, a + g),
                None,
                format!("begin {} {} end", lookup(a), lookup((a + g).min(65535))),
                vec![],
            ));
        }
    }
    out
}

/// (main rows, range rows, chiplet rows without padding) of an execution, None if it fails.
pub fn shape(p: &vm_core::Program, st: &[u64]) -> Option<(usize, usize, usize)> {
    let (trace, _) = execute_trace(p, st, &[]).ok()?;
    let s = *trace.trace_len_summary();
    let cl = s.chiplets_trace_len();
    Some((s.main_trace_len(), s.range_trace_len(), cl.hash_chiplet_len() + cl.bitwise_chiplet_len() + cl.memory_chiplet_len() + cl.kernel_rom_len()))
}

/// Programs whose trace components sit on a power-of-two boundary: for each family (memory-,
/// hasher+memory-, bitwise-, range-, cycle-dominated, with and without a kernel) the parameter is
/// searched until the dominant component has exactly 2^k - 2, 2^k - 1 or 2^k rows. These are the
/// shapes where an off-by-one in the padding / trace-length rule puts a constrained row next to
/// the random row.
pub fn boundary_programs(max_per_family: usize) -> Vec<(String, Option<String>, String, Vec<u64>)> {
    let kernel = "export.k1 push.1 drop end\n".to_string();
    let families: Vec<(&str, Option<String>, Box<dyn Fn(usize) -> String>)> = vec![
        ("memory-last chiplets", None, Box::new(|n| format!("begin {} end", (0..n).map(|i| format!("mem_load.{} drop", i % 7)).collect::<Vec<_>>().join(" ")))),
        ("mem_stream chiplets", None, Box::new(|n| format!("begin repeat.{} mem_stream end mem_load end", n.max(1)))),
        ("hperm+memory chiplets", None, Box::new(|n| format!("begin {} {} end", vec!["hperm"; 1 + n / 9].join(" "), (0..(n % 9 + 1)).map(|i| format!("mem_load.{} drop", i)).collect::<Vec<_>>().join(" ")))),
        ("bitwise+memory chiplets", None, Box::new(|n| format!("begin {} {} end", vec!["push.5 push.3 u32and drop"; 1 + n / 9].join(" "), (0..(n % 9)).map(|i| format!("mem_store.{}", i)).collect::<Vec<_>>().join(" ")))),
        ("kernel-rom-last chiplets", Some(kernel.clone()), Box::new(|n| format!("begin syscall.k1 {} end", (0..n).map(|i| format!("mem_load.{} drop", i % 5)).collect::<Vec<_>>().join(" ")))),
        ("range table", None, Box::new(|n| format!("begin {} end", (0..n).map(|i| format!("push.{} u32split drop drop", (i as u64 * 7919 + 13) % 65536 + ((i as u64 * 104729) % 65536) * 65536)).collect::<Vec<_>>().join(" ")))),
        ("cycles", None, Box::new(|n| format!("begin {} end", vec!["push.1 drop"; n.max(1)].join(" ")))),
        ("cycles (noop tail)", None, Box::new(|n| format!("begin push.3 {} drop end", vec!["neg"; n.max(1)].join(" ")))),
    ];
    let mut out = Vec::new();
    for (name, k, f) in families.iter() {
        let mut found = 0;
        let mut seen: std::collections::BTreeSet<(usize, usize)> = Default::default();
        for n in 1..=140usize {
            let src = f(n);
            let p = match assemble(k.as_deref(), &src, false) {
                Ok(p) => p,
                Err(_) => continue,
            };
            let (m, r, c) = match shape(&p, &[]) {
                Some(x) => x,
                None => continue,
            };
            // the dominant component decides the trace length
            let (dom, which) = if c + 1 >= m && c + 1 >= r { (c, 2usize) } else if r >= m { (r, 1) } else { (m, 0) };
            for kk in 6..=9u32 {
                let pw = 1usize << kk;
                if dom + 2 >= pw && dom <= pw && seen.insert((which, dom)) {
                    out.push((format!("{}: {} rows of the dominant component (main {}, range {}, chiplets {})", name, dom, m, r, c), k.clone(), src.clone(), vec![]));
                    found += 1;
                }
            }
            if found >= max_per_family {
                break;
            }
        }
    }
    out
}

pub fn generate(em: &mut Emitter, seed: u64, thorough: bool) {
    let mut rng = Rng::new(seed ^ 0xC03);
    let mut counters = [0u64; 4];
    // (1) general programs (all block kinds, calls, syscalls, memory, advice, hashing)
    let n = if thorough { 1200 } else { 70 };
    for i in 0..n {
        let d = rng.below(4) as u32;
        let l = 1 + rng.below(5) as usize;
        let (k, src) = gen_program(&mut rng, i % 3 == 0, d, l);
        if let Ok(p) = assemble(k.as_deref(), &src, false) {
            let st = random_stack(&mut rng);
            let adv = random_advice(&mut rng);
            // the same run also feeds the model correspondence
            exec_case(em, &p, &st, &adv, None, "sys");
            check_trace(em, "general", &src, &p, &st, &adv, &mut rng, &mut counters);
        }
    }
    // (2) every instruction form in three depth regimes
    let forms = crate::c05::instr_forms();
    for (j, f) in forms.iter().enumerate() {
        if !thorough && j % 4 != (seed as usize) % 4 {
            continue;
        }
        for depth in [16usize, 17, 23] {
            let st: Vec<u64> = (0..depth).map(|_| rng.u32ish()).collect();
            let src = format!("begin {} end", f);
            if let Ok(p) = assemble(None, &src, false) {
                check_trace(em, "instruction", &src, &p, &st, &[], &mut rng, &mut counters);
            }
        }
    }
    // (3) padding regimes: range-checker dominated and chiplet dominated traces
    for k in 0..(if thorough { 12 } else { 3 }) {
        let m = 40 + 30 * k;
        let range_heavy = format!("begin {} end", (0..m).map(|i| format!("push.{} u32split drop drop", (i as u64 * 7919 + 13) % 65536 + ((i as u64 * 104729) % 65536) * 65536)).collect::<Vec<_>>().join(" "));
        if let Ok(p) = assemble(None, &range_heavy, false) {
            check_trace(em, "range-dominated", "push.x u32split ... (many distinct 16-bit limbs)", &p, &[], &[], &mut rng, &mut counters);
        }
        let chip_heavy = format!("begin {} end", vec!["hperm"; 10 + 12 * k].join(" "));
        if let Ok(p) = assemble(None, &chip_heavy, false) {
            check_trace(em, "chiplet-dominated", "hperm x N", &p, &[1, 2, 3], &[], &mut rng, &mut counters);
        }
        let mem_heavy = format!("begin {} end", (0..(20 + 20 * k)).map(|i| format!("push.{} mem_store.{} mem_load.{} drop", i, i * 3, i * 3)).collect::<Vec<_>>().join(" "));
        if let Ok(p) = assemble(None, &mem_heavy, false) {
            check_trace(em, "memory-dominated", "mem_store/mem_load x N", &p, &[], &[], &mut rng, &mut counters);
        }
    }
    // (4) power-of-two boundary shapes of every trace component
    let mut bp = boundary_programs(if thorough { 12 } else { 6 });
    bp.extend(range_gap_programs(seed, if thorough { 400 } else { 90 }));
    em.stat("boundary_shape_programs", bp.len());
    for (what, k, src, st) in bp.iter() {
        if let Ok(p) = assemble(k.as_deref(), src, false) {
            check_trace(em, what, &src[..src.len().min(200)], &p, st, &[], &mut rng, &mut counters);
        }
    }
    // (5) memory accessed from several execution contexts: r accesses in the root context, a accesses
    //     in a callee (call / syscall / dyncall / nested call), same / neighbouring / distant addresses,
    //     short and long clock distances between accesses, locals in caller and callee
    {
        let mut ctx_progs: Vec<(String, Option<String>, String)> = Vec::new();
        let access = |i: usize, far: bool, gap: usize| -> String {
            let addr = if far { 70000 * (i as u64 + 1) + 5 } else { 10 + (i as u64 % 3) };
            let pad = if gap > 0 { format!("repeat.{} push.0 drop end ", gap) } else { String::new() };
            match i % 4 {
                0 => format!("{}push.{} mem_store.{} ", pad, i + 1, addr),
                1 => format!("{}mem_load.{} drop ", pad, addr),
                2 => format!("{}padw mem_storew.{} dropw ", pad, addr),
                _ => format!("{}padw mem_loadw.{} dropw ", pad, addr),
            }
        };
        for &a in &[1usize, 2, 3, 5] {
            for &r in &[0usize, 1, 3] {
                for &(far, gap) in &[(false, 0usize), (true, 0), (false, 40), (true, 300)] {
                    let callee: String = (0..a).map(|i| access(i, far, gap)).collect();
                    let root_pre: String = (0..r).map(|i| access(i + 1, far, 0)).collect();
                    let root_post: String = (0..r).map(|i| access(i, !far, gap / 2)).collect();
                    ctx_progs.push((format!("call a={} r={} far={} gap={}", a, r, far, gap), None,
                        format!("proc.f {} end begin {} call.f {} end", callee, root_pre, root_post)));
                    if far == false && gap == 0 {
                        ctx_progs.push((format!("two calls a={} r={}", a, r), None,
                            format!("proc.f {} end begin {} call.f call.f {} end", callee, root_pre, root_post)));
                        ctx_progs.push((format!("nested call a={} r={}", a, r), None,
                            format!("proc.g {} end proc.f {} call.g {} end begin {} call.f {} end", callee, root_pre, callee, root_pre, root_post)));
                        ctx_progs.push((format!("syscall a={} r={}", a, r), Some(format!("export.k {} end", callee)),
                            format!("begin {} syscall.k {} end", root_pre, root_post)));
                        ctx_progs.push((format!("call then syscall a={} r={}", a, r), Some(format!("export.k {} end", callee)),
                            format!("proc.f {} syscall.k {} end begin {} call.f {} end", callee, callee, root_pre, root_post)));
                        ctx_progs.push((format!("dyncall a={} r={}", a, r), None,
                            format!("proc.f {} end begin {} procref.f dyncall dropw {} end", callee, root_pre, root_post)));
                        ctx_progs.push((format!("locals a={} r={}", a, r), None,
                            format!("proc.f.2 push.7 loc_store.0 {} loc_load.1 drop loc_load.0 drop end proc.h.3 push.9 loc_store.2 {} call.f loc_load.2 drop end begin {} call.h {} end", callee, root_pre, root_pre, root_post)));
                    }
                }
            }
        }
        em.stat("memory_across_contexts_programs", ctx_progs.len());
        for (what, k, src) in ctx_progs.iter() {
            match assemble(k.as_deref(), src, false) {
                Ok(p) => {
                    exec_case(em, &p, &[], &[], None, "sys");
                    check_trace(em, &format!("memory across contexts ({})", what), &src[..src.len().min(300)], &p, &[], &[], &mut rng, &mut counters);
                }
                Err(e) => em.oracle_failures.push(format!("C03 generated program does not assemble: {} :: {}", src, e)),
            }
        }
    }
    em.stat("traces_checked", counters[0]);
    em.stat("rows_checked", counters[1]);
    em.stat("aux_segments_checked", counters[2]);
    em.stat("traces_with_undefined_u32_inputs", counters[3]);
}

/// `hrow` requests: for user-operation rows of a real trace, the helper registers h0..h5, the depth
/// helper column and the stack cells / depth / fmp of the next row, as the processor wrote them.
fn emit_hrows(em: &mut Emitter, ctx: &AirCtx, main_len: usize, trace_no: u64) {
    use air::trace::{stack::*, CLK_COL_IDX, DECODER_TRACE_OFFSET, FMP_COL_IDX, STACK_TRACE_OFFSET};
    let helpers = DECODER_TRACE_OFFSET + 8 + 2;
    let s0 = STACK_TRACE_OFFSET;
    let b0 = STACK_TRACE_OFFSET + B0_COL_IDX;
    let h0 = STACK_TRACE_OFFSET + H0_COL_IDX;
    let ops = crate::export::all_ops();
    let n = main_len.min(ctx.last_step);
    let mut emitted = 0usize;
    for step in 0..n.saturating_sub(1) {
        let opc = ctx.opcode_at(step);
        // operations whose stack effect needs memory, the advice provider, the hasher or the kernel, or
        // whose helper registers carry chiplet addresses / other words, are outside `helpersOf`
        let outside = matches!(opc, 7 | 9 | 14 | 40 | 44 | 45 | 46 | 61 | 80 | 81 | 82 | 83 | 89 | 96);
        let op = match ops.iter().find(|o| o.op_code() == opc) {
            Some(o) if !o.is_control_op() && !outside => o,
            _ => continue,
        };
        let cur = &ctx.rows[step];
        let nxt = &ctx.rows[step + 1];
        let writes_helpers = matches!(opc, 1 | 15 | 33 | 64..=78);
        // every helper-writing row, a sample of the others (bounded per trace)
        if !writes_helpers && (step as u64 + trace_no) % 4 != 0 {
            continue;
        }
        if emitted >= 400 {
            break;
        }
        // undefined u32 inputs are not honest rows (known finding)
        let nops = match opc { 64 | 66 | 68 | 70 => 2, 76 | 78 => 3, _ => 0 };
        if (0..nops).any(|i| cur[s0 + i].as_int() >= (1 << 32)) {
            continue;
        }
        emitted += 1;
        let dbg = format!("{:?}", op);
        let name = dbg.split('(').next().unwrap().to_lowercase();
        let tok = match op {
            vm_core::Operation::Push(_) => format!("push:{}", nxt[s0].as_int()),
            vm_core::Operation::Assert(_) => "assert:0".to_string(),
            vm_core::Operation::U32assert2(_) => "u32assert2:0".to_string(),
            _ => name,
        };
        let depth = cur[b0].as_int();
        let left = matches!(opc, 32..=47 | 76 | 78);
        let cells: Vec<String> = (0..16)
            .map(|i| if left && depth > 16 && i == 15 { "-".to_string() } else { nxt[s0 + i].as_int().to_string() })
            .collect();
        em.emit(
            format!(
                "hrow {} {} {} {} {}",
                tok,
                cur[CLK_COL_IDX].as_int(),
                cur[FMP_COL_IDX].as_int(),
                depth,
                join_u64((0..16).map(|i| cur[s0 + i].as_int()))
            ),
            format!(
                "hlp {} h0 {} next {} {} {}",
                join_u64((0..6).map(|i| cur[helpers + i].as_int())),
                cur[h0].as_int(),
                cells.join(","),
                nxt[b0].as_int(),
                nxt[FMP_COL_IDX].as_int()
            ),
        );
    }
}
