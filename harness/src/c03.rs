//! C03 — honest execution traces satisfy the entire AIR (direct monitor on the real code).
use crate::airmon::*;
use crate::execgen::*;
use crate::progs::*;
use crate::util::*;
use crate::Emitter;
use vm_core::{Felt, StarkField};

pub fn check_trace(em: &mut Emitter, what: &str, src: &str, p: &vm_core::Program, st: &[u64], adv: &[u64], rng: &mut Rng, counters: &mut [u64; 4]) {
    let (mut trace, inputs) = match execute_trace(p, st, adv) {
        Ok(x) => x,
        Err(e) => {
            if e == "PANIC" {
                em.oracle_failures.push(format!("C03 trace construction panicked ({}): `{}` stack={:?}", what, src, st));
            }
            return;
        }
    };
    counters[0] += 1;
    let ctx = AirCtx::new(&trace, inputs);
    counters[1] += ctx.len as u64;
    // power of two, large enough for every component + the random row
    let s = *trace.trace_len_summary();
    let need = s.main_trace_len().max(s.range_trace_len()).max(s.chiplets_trace_len().trace_len()) + 1;
    if !ctx.len.is_power_of_two() || ctx.len < need || ctx.len < 64 || (ctx.len / 2 >= need && ctx.len > 64) {
        em.oracle_failures.push(format!("C03 trace length {} is not the least power of two >= max(64, {}) ({}): `{}`", ctx.len, need, what, src));
    }
    let hv = ctx.honest_violations();
    // u32 arithmetic applied to operands >= 2^32 is documented as undefined: the VM executes it but
    // the row cannot satisfy the limb constraints. Reported as its own (known) class.
    let undefined_u32 = |step: usize| -> bool {
        let opc = ctx.opcode_at(step);
        let nops = match opc {
            64 | 66 | 68 | 70 => 2,
            76 | 78 => 3,
            _ => 0,
        };
        (0..nops).any(|i| ctx.rows[step][air::trace::STACK_TRACE_OFFSET + i].as_int() >= (1 << 32))
    };
    let real: Vec<&(usize, usize)> = hv.iter().filter(|(s, _)| !undefined_u32(*s)).collect();
    if let Some((step, ci)) = real.first() {
        em.oracle_failures.push(format!(
            "C03 honest trace violates main transition constraint {} at step {} (opcode {}) [{} violations] ({}): `{}` stack={:?}",
            ci, step, ctx.opcode_at(*step), real.len(), what, src, st
        ));
    } else if let Some((step, ci)) = hv.first() {
        counters[3] += 1;
        if counters[3] <= 3 {
            em.oracle_failures.push(format!(
                "C03 u32 arithmetic on a non-u32 operand executes but violates constraint {} at step {} (opcode {}) ({}): `{}` stack={:?}",
                ci, step, ctx.opcode_at(*step), what, src, st
            ));
        }
    }
    let av = ctx.assertion_violations();
    if let Some(a) = av.first() {
        em.oracle_failures.push(format!("C03 boundary assertion fails: {} ({}): `{}` stack={:?}", a, what, src, st));
    }
    for _ in 0..2 {
        let rand: Vec<Felt> = (0..16).map(|_| Felt::new(rng.next() % P)).collect();
        let (bad, _) = ctx.aux_violations(&mut trace, rand.clone());
        counters[2] += 1;
        if let Some(b) = bad.first() {
            em.oracle_failures.push(format!(
                "C03 auxiliary segment: {} [{} violations] for challenges {:?} ({}): `{}` stack={:?}",
                b, bad.len(), rand.iter().map(|f| f.as_int()).collect::<Vec<_>>(), what, src, st
            ));
        }
    }
}

pub fn generate(em: &mut Emitter, seed: u64, thorough: bool) {
    let mut rng = Rng::new(seed ^ 0xC03);
    let mut counters = [0u64; 4];
    // (1) general programs (all block kinds, calls, syscalls, memory, advice, hashing)
    let n = if thorough { 1200 } else { 70 };
    for i in 0..n {
        let d = rng.below(4) as u32;
        let l = 1 + rng.below(5) as usize;
        let (k, src) = gen_program(&mut rng, i % 3 == 0, d, l);
        if let Ok(p) = assemble(k.as_deref(), &src, false) {
            let st = random_stack(&mut rng);
            let adv = random_advice(&mut rng);
            // the same run also feeds the model correspondence
            exec_case(em, &p, &st, &adv, None, "sys");
            check_trace(em, "general", &src, &p, &st, &adv, &mut rng, &mut counters);
        }
    }
    // (2) every instruction form in three depth regimes
    let forms = crate::c05::instr_forms();
    for (j, f) in forms.iter().enumerate() {
        if !thorough && j % 4 != (seed as usize) % 4 {
            continue;
        }
        for depth in [16usize, 17, 23] {
            let st: Vec<u64> = (0..depth).map(|_| rng.u32ish()).collect();
            let src = format!("begin {} end", f);
            if let Ok(p) = assemble(None, &src, false) {
                check_trace(em, "instruction", &src, &p, &st, &[], &mut rng, &mut counters);
            }
        }
    }
    // (3) padding regimes: range-checker dominated and chiplet dominated traces
    for k in 0..(if thorough { 12 } else { 3 }) {
        let m = 40 + 30 * k;
        let range_heavy = format!("begin {} end", (0..m).map(|i| format!("push.{} u32split drop drop", (i as u64 * 7919 + 13) % 65536 + ((i as u64 * 104729) % 65536) * 65536)).collect::<Vec<_>>().join(" "));
        if let Ok(p) = assemble(None, &range_heavy, false) {
            check_trace(em, "range-dominated", "push.x u32split ... (many distinct 16-bit limbs)", &p, &[], &[], &mut rng, &mut counters);
        }
        let chip_heavy = format!("begin {} end", vec!["hperm"; 10 + 12 * k].join(" "));
        if let Ok(p) = assemble(None, &chip_heavy, false) {
            check_trace(em, "chiplet-dominated", "hperm x N", &p, &[1, 2, 3], &[], &mut rng, &mut counters);
        }
        let mem_heavy = format!("begin {} end", (0..(20 + 20 * k)).map(|i| format!("push.{} mem_store.{} mem_load.{} drop", i, i * 3, i * 3)).collect::<Vec<_>>().join(" "));
        if let Ok(p) = assemble(None, &mem_heavy, false) {
            check_trace(em, "memory-dominated", "mem_store/mem_load x N", &p, &[], &[], &mut rng, &mut counters);
        }
    }
    em.stat("traces_checked", counters[0]);
    em.stat("rows_checked", counters[1]);
    em.stat("aux_segments_checked", counters[2]);
    em.stat("traces_with_undefined_u32_inputs", counters[3]);
}
