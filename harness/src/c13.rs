//! C13 — the decoded operation stream is exactly the program (op stream + decoder bookkeeping).
use crate::execgen::*;
use crate::util::*;
use crate::Emitter;

pub fn generate(em: &mut Emitter, seed: u64, thorough: bool) {
    let mut rng = Rng::new(seed ^ 0xC13);
    let n = if thorough { 6000 } else { 400 };
    let (ok, err, asm) = general(em, &mut rng, n, "ops,sys,mem");
    em.stat("programs_ok", ok);
    em.stat("programs_err", err);
    em.stat("assembly_errors", asm);
}
