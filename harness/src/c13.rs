//! C13 — the decoded operation stream is exactly the program (op stream + decoder bookkeeping).
use crate::execgen::*;
use crate::util::*;
use crate::Emitter;
use vm_core::{code_blocks::CodeBlock, Felt, Operation, Program};

/// Raw MAST programs (no assembler): spans whose groups and batches are filled in every way,
/// explicit NOOPs included, alone and under JOIN / SPLIT / LOOP.
fn raw_programs(em: &mut Emitter, rng: &mut Rng, thorough: bool) -> u64 {
    let mut n = 0u64;
    let mut run = |em: &mut Emitter, ops: Vec<Operation>, shape: u64| {
        let span = CodeBlock::new_span(ops.clone());
        let root = match shape % 4 {
            0 => span,
            1 => CodeBlock::new_join([span, CodeBlock::new_span(vec![Operation::Noop, Operation::Noop])]),
            2 => CodeBlock::new_join([CodeBlock::new_span(vec![Operation::Push(Felt::new(1))]), CodeBlock::new_split(span, CodeBlock::new_span(vec![Operation::Noop]))]),
            _ => CodeBlock::new_join([CodeBlock::new_span(vec![Operation::Push(Felt::new(0)), Operation::Push(Felt::new(1))]), CodeBlock::new_loop(span)]),
        };
        let p = Program::new(root);
        exec_case(em, &p, &[9, 8, 7], &[], None, "ops,sys");
    };
    // depth-neutral filler operations
    let filler = [Operation::Swap, Operation::Noop, Operation::Incr, Operation::Neg, Operation::MovUp2, Operation::SwapW];
    // (a) k operations followed by a tail of NOOPs, around group (9) and batch (72) boundaries
    for k in [0usize, 1, 2, 7, 8, 9, 10, 17, 18, 19, 63, 64, 70, 71, 72, 73, 80] {
        for tail in 0..=(if thorough { 20 } else { 10 }) {
            if k + tail == 0 {
                continue;
            }
            for variant in 0..3u64 {
                let mut ops: Vec<Operation> = (0..k)
                    .map(|i| match variant {
                        0 => Operation::Swap,
                        1 => if i % 5 == 4 { Operation::Noop } else { Operation::Incr },
                        _ => *rng.pick(&filler),
                    })
                    .collect();
                if variant == 1 && k > 0 {
                    // a PUSH / DROP pair so that immediates take part
                    ops[k - 1] = Operation::Noop;
                    if k >= 3 {
                        ops[k - 3] = Operation::Push(Felt::new(5));
                        ops[k - 2] = Operation::Drop;
                    }
                }
                ops.extend(std::iter::repeat(Operation::Noop).take(tail));
                run(em, ops, variant + k as u64);
                n += 1;
            }
        }
    }
    // (b) random mixes, NOOP-heavy
    for i in 0..(if thorough { 3000 } else { 300 }) {
        let len = 1 + rng.below(if i % 3 == 0 { 100 } else { 24 }) as usize;
        let ops: Vec<Operation> = (0..len)
            .map(|_| match rng.below(10) {
                0..=3 => Operation::Noop,
                4 => Operation::Pad,
                5 => Operation::Drop,
                6 => Operation::Push(Felt::new(rng.below(3))),
                _ => *rng.pick(&filler),
            })
            .collect();
        // keep the loop variant terminating: the body must leave 0 on top
        let mut ops = ops;
        if i % 4 == 3 {
            ops.push(Operation::Push(Felt::new(0)));
        }
        run(em, ops, i as u64);
        n += 1;
    }
    n
}

/// Random trees of JOIN / SPLIT / LOOP over NOOP spans, control blocks nested directly in each other
/// (LOOP in LOOP, SPLIT in LOOP, LOOP in SPLIT, ...). Conditions are read from a random bit script on
/// the stack, so loops are entered, repeated and skipped in every combination and everything
/// terminates (zeros are shifted in at the bottom).
pub fn nested_programs(rng: &mut Rng, count: usize) -> Vec<(Program, Vec<u64>)> {
    fn gen(rng: &mut Rng, depth: u32) -> CodeBlock {
        let leaf = |rng: &mut Rng| CodeBlock::new_span(vec![Operation::Noop; 1 + rng.below(2) as usize]);
        if depth == 0 {
            return leaf(rng);
        }
        match rng.below(8) {
            0 => leaf(rng),
            1 | 2 => CodeBlock::new_join([gen(rng, depth - 1), gen(rng, depth - 1)]),
            3 | 4 => CodeBlock::new_split(gen(rng, depth - 1), gen(rng, depth - 1)),
            _ => CodeBlock::new_loop(gen(rng, depth - 1)),
        }
    }
    let mut out = Vec::new();
    for i in 0..count {
        let depth = 2 + (i % 3) as u32;
        // the first programs are the directly nested loops themselves
        let root = match i {
            0 => CodeBlock::new_loop(CodeBlock::new_loop(CodeBlock::new_span(vec![Operation::Noop]))),
            1 => CodeBlock::new_loop(CodeBlock::new_loop(CodeBlock::new_loop(CodeBlock::new_span(vec![Operation::Noop])))),
            2 => CodeBlock::new_loop(CodeBlock::new_split(CodeBlock::new_loop(CodeBlock::new_span(vec![Operation::Noop])), CodeBlock::new_span(vec![Operation::Noop]))),
            _ => CodeBlock::new_loop(gen(rng, depth)),
        };
        // bit script, biased towards 1 at the start so that the outer loops are entered
        let bits: Vec<u64> = (0..40).map(|j| if j < 2 + (i % 3) { 1 } else if rng.below(5) < 2 { 1 } else { 0 }).collect();
        out.push((Program::new(root), bits));
    }
    out
}

/// Independent walk over the decoder rows of a real trace: every END row must carry the flags of the
/// block it closes — `is_loop_body` iff the parent block is a LOOP, `is_loop` iff the block is a LOOP
/// whose body was entered — and starts / ends must be well bracketed.
fn check_end_flags(em: &mut Emitter, p: &Program, st: &[u64], what: &str) -> u64 {
    use air::trace::{DECODER_TRACE_OFFSET, STACK_TRACE_OFFSET};
    let (trace, inputs) = match crate::airmon::execute_trace(p, st, &[]) {
        Ok(x) => x,
        Err(_) => return 0,
    };
    let ctx = crate::airmon::AirCtx::new(&trace, inputs);
    let n = trace.trace_len_summary().main_trace_len().min(ctx.last_step);
    // (opcode of the start row, loop entered)
    let mut stack: Vec<(u8, bool)> = Vec::new();
    let mut ends = 0u64;
    for step in 0..n {
        let opc = ctx.opcode_at(step);
        let row = &ctx.rows[step];
        match opc {
            87 | 84 | 86 | 108 | 104 | 88 => stack.push((opc, false)),
            85 => stack.push((opc, row[STACK_TRACE_OFFSET] == Felt::new(1))),
            112 => {
                ends += 1;
                let (kind, entered) = match stack.pop() {
                    Some(x) => x,
                    None => {
                        em.oracle_failures.push(format!("C13 END without an open block at row {} ({})", step, what));
                        return ends;
                    }
                };
                let parent_is_loop = stack.last().map(|(k, _)| *k == 85).unwrap_or(false);
                let is_loop_body = row[DECODER_TRACE_OFFSET + 8 + 4] == Felt::new(1);
                let is_loop = row[DECODER_TRACE_OFFSET + 8 + 5] == Felt::new(1);
                if is_loop_body != parent_is_loop {
                    em.oracle_failures.push(format!(
                        "C13 END row {} closes a block whose parent {} a LOOP but carries is_loop_body = {} ({}, stack {:?})",
                        step, if parent_is_loop { "is" } else { "is not" }, is_loop_body as u8, what, &st[..st.len().min(12)]
                    ));
                    return ends;
                }
                if is_loop != (kind == 85 && entered) {
                    em.oracle_failures.push(format!(
                        "C13 END row {} closes a {} block (entered: {}) but carries is_loop = {} ({}, stack {:?})",
                        step, kind, entered, is_loop as u8, what, &st[..st.len().min(12)]
                    ));
                    return ends;
                }
            }
            _ => {}
        }
    }
    if !stack.is_empty() {
        em.oracle_failures.push(format!("C13 {} blocks still open at the end of the program ({})", stack.len(), what));
    }
    ends
}

pub fn generate(em: &mut Emitter, seed: u64, thorough: bool) {
    let mut rng = Rng::new(seed ^ 0xC13);
    // directly nested control blocks: op stream against the model, END-row flags against an independent walk
    let mut ends = 0u64;
    let nested = nested_programs(&mut rng, if thorough { 600 } else { 80 });
    for (i, (p, bits)) in nested.iter().enumerate() {
        exec_case(em, p, bits, &[], None, "ops,sys");
        ends += check_end_flags(em, p, bits, &format!("nested control blocks #{}", i));
    }
    em.stat("nested_control_programs", nested.len());
    em.stat("end_rows_checked", ends);
    let n = if thorough { 6000 } else { 400 };
    let (ok, err, asm) = general(em, &mut rng, n, "ops,sys,mem");
    em.stat("programs_ok", ok);
    em.stat("programs_err", err);
    em.stat("assembly_errors", asm);
    let raw = raw_programs(em, &mut rng, thorough);
    em.stat("raw_mast_programs", raw);
}
