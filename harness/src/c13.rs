//! C13 — the decoded operation stream is exactly the program (op stream + decoder bookkeeping).
use crate::execgen::*;
use crate::util::*;
use crate::Emitter;
use vm_core::{code_blocks::CodeBlock, Felt, Operation, Program};

/// Raw MAST programs (no assembler): spans whose groups and batches are filled in every way,
/// explicit NOOPs included, alone and under JOIN / SPLIT / LOOP.
fn raw_programs(em: &mut Emitter, rng: &mut Rng, thorough: bool) -> u64 {
    let mut n = 0u64;
    let mut run = |em: &mut Emitter, ops: Vec<Operation>, shape: u64| {
        let span = CodeBlock::new_span(ops.clone());
        let root = match shape % 4 {
            0 => span,
            1 => CodeBlock::new_join([span, CodeBlock::new_span(vec![Operation::Noop, Operation::Noop])]),
            2 => CodeBlock::new_join([CodeBlock::new_span(vec![Operation::Push(Felt::new(1))]), CodeBlock::new_split(span, CodeBlock::new_span(vec![Operation::Noop]))]),
            _ => CodeBlock::new_join([CodeBlock::new_span(vec![Operation::Push(Felt::new(0)), Operation::Push(Felt::new(1))]), CodeBlock::new_loop(span)]),
        };
        let p = Program::new(root);
        exec_case(em, &p, &[9, 8, 7], &[], None, "ops,sys");
    };
    // depth-neutral filler operations
    let filler = [Operation::Swap, Operation::Noop, Operation::Incr, Operation::Neg, Operation::MovUp2, Operation::SwapW];
    // (a) k operations followed by a tail of NOOPs, around group (9) and batch (72) boundaries
    for k in [0usize, 1, 2, 7, 8, 9, 10, 17, 18, 19, 63, 64, 70, 71, 72, 73, 80] {
        for tail in 0..=(if thorough { 20 } else { 10 }) {
            if k + tail == 0 {
                continue;
            }
            for variant in 0..3u64 {
                let mut ops: Vec<Operation> = (0..k)
                    .map(|i| match variant {
                        0 => Operation::Swap,
                        1 => if i % 5 == 4 { Operation::Noop } else { Operation::Incr },
                        _ => *rng.pick(&filler),
                    })
                    .collect();
                if variant == 1 && k > 0 {
                    // a PUSH / DROP pair so that immediates take part
                    ops[k - 1] = Operation::Noop;
                    if k >= 3 {
                        ops[k - 3] = Operation::Push(Felt::new(5));
                        ops[k - 2] = Operation::Drop;
                    }
                }
                ops.extend(std::iter::repeat(Operation::Noop).take(tail));
                run(em, ops, variant + k as u64);
                n += 1;
            }
        }
    }
    // (b) random mixes, NOOP-heavy
    for i in 0..(if thorough { 3000 } else { 300 }) {
        let len = 1 + rng.below(if i % 3 == 0 { 100 } else { 24 }) as usize;
        let ops: Vec<Operation> = (0..len)
            .map(|_| match rng.below(10) {
                0..=3 => Operation::Noop,
                4 => Operation::Pad,
                5 => Operation::Drop,
                6 => Operation::Push(Felt::new(rng.below(3))),
                _ => *rng.pick(&filler),
            })
            .collect();
        // keep the loop variant terminating: the body must leave 0 on top
        let mut ops = ops;
        if i % 4 == 3 {
            ops.push(Operation::Push(Felt::new(0)));
        }
        run(em, ops, i as u64);
        n += 1;
    }
    n
}

pub fn generate(em: &mut Emitter, seed: u64, thorough: bool) {
    let mut rng = Rng::new(seed ^ 0xC13);
    let n = if thorough { 6000 } else { 400 };
    let (ok, err, asm) = general(em, &mut rng, n, "ops,sys,mem");
    em.stat("programs_ok", ok);
    em.stat("programs_err", err);
    em.stat("assembly_errors", asm);
    let raw = raw_programs(em, &mut rng, thorough);
    em.stat("raw_mast_programs", raw);
}
