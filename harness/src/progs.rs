//! Generators of Miden assembly sources and raw operation lists.
#![allow(dead_code)]
use crate::util::Rng;
use vm_core::{Felt, Operation};

/// User (non-control) operations that are safe to place in a span for *batching* purposes
/// (they are never executed by the batching checks).
pub fn user_ops() -> Vec<Operation> {
    crate::export::all_ops().into_iter().filter(|o| !o.is_control_op()).collect()
}

pub fn random_op(rng: &mut Rng, push_pct: u64) -> Operation {
    if rng.below(100) < push_pct {
        Operation::Push(Felt::new(rng.felt()))
    } else {
        let ops = user_ops();
        let op = *rng.pick(&ops);
        match op {
            Operation::Push(_) => Operation::Push(Felt::new(rng.felt())),
            Operation::Assert(_) => Operation::Assert(rng.below(5) as u32),
            Operation::U32assert2(_) => Operation::U32assert2(Felt::new(rng.below(5))),
            o => o,
        }
    }
}

// ---------------------------------------------------------------------------------------------
// Instruction-level source generation
// ---------------------------------------------------------------------------------------------

/// Instructions that never fail and never touch advice/memory: usable anywhere as "filler".
pub const SAFE_INSTRS: &[&str] = &[
    "add", "sub", "mul", "neg", "eq", "neq", "dup.0", "dup.1", "dup.3", "dup.7", "dup.15",
    "swap", "swap.3", "swapw", "swapw.2", "swapw.3", "swapdw", "movup.2", "movup.5", "movup.9",
    "movup.15", "movdn.2", "movdn.4", "movdn.11", "movdn.15", "movupw.2", "movupw.3", "movdnw.2",
    "movdnw.3", "drop", "dropw", "padw", "push.0", "push.1", "push.7", "push.4294967295",
    "push.4294967296", "push.18446744069414584320", "incr_placeholder", "u32split", "u32wrapping_add",
    "u32overflowing_add", "u32wrapping_sub", "u32overflowing_sub", "u32wrapping_mul",
    "u32overflowing_mul", "u32overflowing_add3", "u32wrapping_add3", "u32overflowing_madd",
    "u32wrapping_madd", "u32lt", "u32lte", "u32gt", "u32gte", "u32min", "u32max", "lt", "lte", "gt",
    "gte", "is_odd", "ext2add", "ext2sub", "ext2mul", "ext2neg", "add.5", "mul.3", "sub.1", "eq.0",
    "neq.9", "sdepth", "clk", "pow2_placeholder", "exp.3", "exp.u7", "cdrop_placeholder",
    "u32cast", "u32testw", "u32test", "hperm", "hmerge", "hash", "mem_load.5", "mem_store.7",
    "mem_loadw.9", "mem_storew.11", "push.1.2.3.4", "nop_placeholder",
];

pub fn safe_instr(rng: &mut Rng) -> String {
    loop {
        let s = *rng.pick(SAFE_INSTRS);
        if !s.ends_with("_placeholder") {
            return s.to_string();
        }
    }
}

/// A straight-line body of `n` safe instructions.
pub fn straight(rng: &mut Rng, n: usize) -> String {
    (0..n).map(|_| safe_instr(rng)).collect::<Vec<_>>().join(" ")
}

// ---------------------------------------------------------------------------------------------
// Structured whole-program generator
// ---------------------------------------------------------------------------------------------

/// (text, net stack effect) — instructions that cannot fail on arbitrary field elements.
pub const TOTAL_INSTRS: &[(&str, i32)] = &[
    ("add", -1), ("sub", -1), ("mul", -1), ("neg", 0), ("eq", -1), ("neq", -1), ("eq.0", 0),
    ("add.7", 0), ("mul.3", 0), ("sub.1", 0), ("eq.5", 0), ("neq.2", 0),
    ("dup.0", 1), ("dup.1", 1), ("dup.2", 1), ("dup.4", 1), ("dup.8", 1), ("dup.10", 1),
    ("dup.15", 1), ("dupw.0", 4), ("dupw.3", 4), ("swap", 0), ("swap.2", 0), ("swap.15", 0),
    ("swapw", 0), ("swapw.2", 0), ("swapw.3", 0), ("swapdw", 0), ("movup.2", 0), ("movup.3", 0),
    ("movup.7", 0), ("movup.8", 0), ("movup.9", 0), ("movup.15", 0), ("movdn.2", 0),
    ("movdn.5", 0), ("movdn.8", 0), ("movdn.12", 0), ("movdn.15", 0), ("movupw.2", 0),
    ("movupw.3", 0), ("movdnw.2", 0), ("movdnw.3", 0), ("drop", -1), ("dropw", -4), ("padw", 4),
    ("push.0", 1), ("push.1", 1), ("push.2", 1), ("push.4294967295", 1), ("push.4294967296", 1),
    ("push.18446744069414584320", 1), ("push.0x0000000000000100", 1), ("push.3.4", 2),
    ("u32split", 1), ("u32cast", 0), ("u32test", 1), ("u32testw", 1), ("u32wrapping_add", -1),
    ("u32overflowing_add", 0), ("u32wrapping_sub", -1), ("u32overflowing_sub", 0),
    ("u32wrapping_mul", -1), ("u32overflowing_mul", 0), ("u32overflowing_add3", -1),
    ("u32wrapping_add3", -2), ("u32overflowing_madd", -1), ("u32wrapping_madd", -2),
    ("u32wrapping_add.9", 0), ("u32overflowing_sub.3", 1), ("u32wrapping_mul.5", 0),
    ("lt", -1), ("lte", -1), ("gt", -1), ("gte", -1), ("is_odd", 0), ("eqw", 1),
    ("ext2add", -2), ("ext2sub", -2), ("ext2mul", -2), ("ext2neg", 0),
    ("sdepth", 1), ("clk", 1), ("exp.3", 0), ("exp.u5", 0), ("exp.0", 0), ("exp.1", 0),
    ("hperm", 0), ("hmerge", -4), ("hash", 0), ("cdrop_safe", -2), ("cswap_safe", -1),
    ("mem_load.5", 1), ("mem_store.7", -1), ("mem_loadw.9", 0), ("mem_storew.11", 0),
    ("mem_load", 0), ("mem_store", -2), ("mem_loadw", -1), ("mem_storew", -1),
    ("mem_stream_safe", 0), ("adv_push.1", 1), ("adv_push.3", 3), ("adv_loadw", 0),
    ("adv_pipe_safe", 0), ("u32min", -1), ("u32max", -1), ("u32lt", -1), ("u32gte", -1),
    ("pow2_safe", 0), ("u32shl.3", 0), ("u32shr.7", 0), ("u32rotl.5", 0), ("u32rotr.31", 0),
    ("u32and_safe", -1), ("u32xor_safe", -1), ("u32or_safe", -1), ("u32not_safe", 0),
    ("u32div_safe", -1), ("u32mod_safe", -1), ("u32divmod_safe", 0), ("u32popcnt_safe", 0),
    ("u32clz_safe", 0), ("u32ctz_safe", 0), ("u32clo_safe", 0), ("u32cto_safe", 0),
    ("ilog2_safe", 0), ("inv_safe", 0), ("div_safe", -1), ("not_safe", 0), ("and_safe", -1),
    ("or_safe", -1), ("xor_safe", -1), ("assert_safe", 0), ("assert_eq_safe", 0),
    ("ext2inv_safe", 0), ("ext2div_safe", -2),
];

/// Expands the `_safe` pseudo-instructions into sequences that establish their preconditions.
pub fn expand(instr: &str) -> String {
    match instr {
        "cdrop_safe" => "push.1 cdrop".into(),
        "cswap_safe" => "push.0 cswap".into(),
        "mem_stream_safe" => "push.100 movdn.12 mem_stream movup.12 drop".into(),
        "adv_pipe_safe" => "push.200 movdn.12 adv_pipe movup.12 drop".into(),
        "pow2_safe" => "drop push.17 pow2".into(),
        "u32and_safe" => "u32cast swap u32cast u32and".into(),
        "u32xor_safe" => "u32cast swap u32cast u32xor".into(),
        "u32or_safe" => "u32cast swap u32cast u32or".into(),
        "u32not_safe" => "u32cast u32not".into(),
        "u32div_safe" => "u32cast push.1 u32or swap u32cast swap u32div".into(),
        "u32mod_safe" => "u32cast push.1 u32or swap u32cast swap u32mod".into(),
        "u32divmod_safe" => "u32cast push.1 u32or swap u32cast swap u32divmod".into(),
        "u32popcnt_safe" => "u32cast u32popcnt".into(),
        "u32clz_safe" => "u32cast u32clz".into(),
        "u32ctz_safe" => "u32cast u32ctz".into(),
        "u32clo_safe" => "u32cast u32clo".into(),
        "u32cto_safe" => "u32cast u32cto".into(),
        "ilog2_safe" => "u32cast push.1 u32or ilog2".into(),
        "inv_safe" => "dup.0 eq.0 add inv".into(),
        "div_safe" => "dup.0 eq.0 add div".into(),
        "not_safe" => "eq.0 not".into(),
        "and_safe" => "eq.0 swap eq.0 and".into(),
        "or_safe" => "eq.0 swap eq.0 or".into(),
        "xor_safe" => "eq.0 swap eq.0 xor".into(),
        "assert_safe" => "push.1 assert".into(),
        "assert_eq_safe" => "dup.0 dup.0 assert_eq".into(),
        "ext2inv_safe" => "dup.1 dup.1 eq.0 swap eq.0 and add ext2inv".into(),
        "ext2div_safe" => "dup.1 dup.1 eq.0 swap eq.0 and add ext2div".into(),
        "mem_load" => "u32cast mem_load".into(),
        "mem_store" => "u32cast mem_store".into(),
        "mem_loadw" => "u32cast mem_loadw".into(),
        "mem_storew" => "u32cast mem_storew".into(),
        other => other.into(),
    }
}

pub struct ProgGen<'a> {
    pub rng: &'a mut Rng,
    /// names of procedures that may be exec'd (no net growth required)
    pub exec_procs: Vec<String>,
    /// names of procedures whose body is depth-neutral or consuming (callable)
    pub call_procs: Vec<String>,
    /// kernel procedures (syscall targets)
    pub kernel_procs: Vec<String>,
    pub allow_calls: bool,
    /// probability (percent) of a non-binary condition at a decision point
    pub nonbinary_pct: u64,
    pub in_proc_locals: u32,
}

impl<'a> ProgGen<'a> {
    pub fn new(rng: &'a mut Rng) -> Self {
        Self {
            rng,
            exec_procs: vec![],
            call_procs: vec![],
            kernel_procs: vec![],
            allow_calls: true,
            nonbinary_pct: 2,
            in_proc_locals: 0,
        }
    }

    fn cond(&mut self) -> String {
        if self.rng.below(100) < self.nonbinary_pct {
            format!("push.{}", self.rng.pick(&[2u64, 3, 4294967296, 18446744069414584320]))
        } else {
            format!("push.{}", self.rng.below(2))
        }
    }

    /// A sequence of `n` total instructions; returns (text, net effect).
    pub fn straight(&mut self, n: usize) -> (String, i32) {
        let mut out = Vec::new();
        let mut net = 0;
        for _ in 0..n {
            let (t, d) = *self.rng.pick(TOTAL_INSTRS);
            out.push(expand(t));
            net += d;
        }
        (out.join(" "), net)
    }

    pub fn local_op(&mut self) -> String {
        if self.in_proc_locals == 0 {
            return String::new();
        }
        let i = self.rng.below(self.in_proc_locals as u64);
        match self.rng.below(4) {
            0 => format!("loc_store.{}", i),
            1 => format!("loc_load.{}", i),
            2 => format!("loc_storew.{}", i),
            _ => format!("loc_loadw.{}", i),
        }
    }

    /// A body with control flow, nesting depth at most `depth`.
    pub fn body(&mut self, depth: u32, len: usize) -> String {
        let mut parts: Vec<String> = Vec::new();
        for _ in 0..len {
            let k = if depth == 0 { self.rng.below(4) } else { self.rng.below(14) };
            match k {
                0..=3 => {
                    let n = 1 + self.rng.below(6) as usize;
                    parts.push(self.straight(n).0)
                }
                4 => {
                    let c = self.cond();
                    let a = self.body(depth - 1, 2);
                    let b = self.body(depth - 1, 2);
                    parts.push(format!("{} if.true {} else {} end", c, a, b));
                }
                5 => {
                    let c = self.cond();
                    let a = self.body(depth - 1, 2);
                    parts.push(format!("{} if.true {} end", c, a));
                }
                6 => {
                    // counter-controlled while loop; the counter lives in memory
                    let n = self.rng.below(4);
                    let addr = 1000 + self.rng.below(50);
                    let b = self.body(depth - 1, 2);
                    parts.push(format!(
                        "push.{n} mem_store.{addr} drop push.{n} neq.0 while.true {b} mem_load.{addr} sub.1 dup.0 mem_store.{addr} neq.0 end",
                    ));
                }
                7 => {
                    let n = 1 + self.rng.below(4);
                    let b = self.body(depth - 1, 1);
                    parts.push(format!("repeat.{} {} end", n, b));
                }
                8 => {
                    if let Some(p) = self.pick_proc(0) {
                        parts.push(format!("exec.{}", p));
                    }
                }
                9 if self.allow_calls => {
                    if let Some(p) = self.pick_proc(1) {
                        parts.push(format!("call.{}", p));
                    }
                }
                10 if self.allow_calls => {
                    if let Some(p) = self.pick_proc(2) {
                        parts.push(format!("syscall.{}", p));
                    }
                }
                11 if self.allow_calls => {
                    if let Some(p) = self.pick_proc(1) {
                        let which = if self.rng.chance(1, 2) { "dynexec" } else { "dyncall" };
                        if which == "dynexec" {
                            parts.push(format!("procref.{} {} dropw", p, which));
                        } else {
                            parts.push(format!("procref.{} {} dropw", p, which));
                        }
                    }
                }
                12 => {
                    let l = self.local_op();
                    if !l.is_empty() {
                        parts.push(l);
                    }
                }
                _ => {
                    // a while loop whose exit value may be non-binary
                    let c = self.cond();
                    let c2 = self.cond();
                    parts.push(format!("{} while.true push.9 drop {} end", c, c2.replace("push.1", "push.0")));
                }
            }
        }
        if parts.is_empty() {
            parts.push("push.1 drop".into());
        }
        parts.join(" ")
    }

    fn pick_proc(&mut self, kind: u32) -> Option<String> {
        let v = match kind {
            0 => &self.exec_procs,
            1 => &self.call_procs,
            _ => &self.kernel_procs,
        };
        if v.is_empty() {
            None
        } else {
            Some(v[self.rng.below(v.len() as u64) as usize].clone())
        }
    }

    /// A callable procedure body: net effect forced to ≤ 0 by trailing drops (most of the time).
    pub fn callable_body(&mut self, len: usize) -> String {
        let (mut s, net) = self.straight(len);
        let l = self.local_op();
        if !l.is_empty() {
            s = format!("{} {}", s, l);
        }
        // worst case every local op pushes 1
        let mut drops = if net > 0 { net } else { 0 } + 1;
        if self.rng.chance(1, 12) {
            drops = 0; // occasionally leave the stack too deep: must fail with BadDepth
        }
        for _ in 0..drops {
            s.push_str(" drop");
        }
        s
    }
}

/// A whole program (kernel source, program source).
pub fn gen_program(rng: &mut Rng, with_kernel: bool, depth: u32, len: usize) -> (Option<String>, String) {
    gen_program_nb(rng, with_kernel, depth, len, 2)
}

pub fn gen_program_nb(
    rng: &mut Rng,
    with_kernel: bool,
    depth: u32,
    len: usize,
    nonbinary_pct: u64,
) -> (Option<String>, String) {
    let mut g = ProgGen::new(rng);
    g.nonbinary_pct = nonbinary_pct;
    let mut kernel_src = None;
    if with_kernel {
        let mut k = String::new();
        for i in 0..2 {
            let name = format!("kproc{}", i);
            g.in_proc_locals = if g.rng.chance(1, 2) { 2 } else { 0 };
            let body = g.callable_body(3);
            let caller = if g.rng.chance(1, 2) { "caller dropw padw " } else { "" };
            k.push_str(&format!("export.{}.{} {}{} end\n", name, g.in_proc_locals, caller, body));
            g.kernel_procs.push(name);
        }
        g.in_proc_locals = 0;
        kernel_src = Some(k);
    }
    let mut src = String::new();
    let nprocs = 1 + g.rng.below(4);
    for i in 0..nprocs {
        let name = format!("p{}", i);
        let locals = if g.rng.chance(1, 2) { 1 + g.rng.below(3) as u32 } else { 0 };
        g.in_proc_locals = locals;
        let callable = g.rng.chance(1, 2);
        g.allow_calls = false; // procedure bodies: exec only (call inside call is generated below)
        let body = if callable {
            g.callable_body(4)
        } else {
            g.body(1, 2)
        };
        let inner_call = if callable && !g.call_procs.is_empty() && g.rng.chance(1, 3) {
            format!("call.{} ", g.call_procs[0])
        } else {
            String::new()
        };
        let inner_sys = if callable && !g.kernel_procs.is_empty() && g.rng.chance(1, 3) {
            format!("syscall.{} ", g.kernel_procs[0])
        } else {
            String::new()
        };
        src.push_str(&format!("proc.{}.{} {}{}{} end\n", name, locals, inner_call, inner_sys, body));
        if callable {
            g.call_procs.push(name.clone());
        }
        g.exec_procs.push(name);
    }
    g.in_proc_locals = 0;
    g.allow_calls = true;
    let main = g.body(depth, len);
    src.push_str(&format!("begin {} end", main));
    (kernel_src, src)
}
