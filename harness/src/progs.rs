//! Generators of Miden assembly sources and raw operation lists.
#![allow(dead_code)]
use crate::util::Rng;
use vm_core::{Felt, Operation};

/// User (non-control) operations that are safe to place in a span for *batching* purposes
/// (they are never executed by the batching checks).
pub fn user_ops() -> Vec<Operation> {
    crate::export::all_ops().into_iter().filter(|o| !o.is_control_op()).collect()
}

pub fn random_op(rng: &mut Rng, push_pct: u64) -> Operation {
    if rng.below(100) < push_pct {
        Operation::Push(Felt::new(rng.felt()))
    } else {
        let ops = user_ops();
        let op = *rng.pick(&ops);
        match op {
            Operation::Push(_) => Operation::Push(Felt::new(rng.felt())),
            Operation::Assert(_) => Operation::Assert(rng.below(5) as u32),
            Operation::U32assert2(_) => Operation::U32assert2(Felt::new(rng.below(5))),
            o => o,
        }
    }
}

// ---------------------------------------------------------------------------------------------
// Instruction-level source generation
// ---------------------------------------------------------------------------------------------

/// Instructions that never fail and never touch advice/memory: usable anywhere as "filler".
pub const SAFE_INSTRS: &[&str] = &[
    "add", "sub", "mul", "neg", "eq", "neq", "dup.0", "dup.1", "dup.3", "dup.7", "dup.15",
    "swap", "swap.3", "swapw", "swapw.2", "swapw.3", "swapdw", "movup.2", "movup.5", "movup.9",
    "movup.15", "movdn.2", "movdn.4", "movdn.11", "movdn.15", "movupw.2", "movupw.3", "movdnw.2",
    "movdnw.3", "drop", "dropw", "padw", "push.0", "push.1", "push.7", "push.4294967295",
    "push.4294967296", "push.18446744069414584320", "incr_placeholder", "u32split", "u32wrapping_add",
    "u32overflowing_add", "u32wrapping_sub", "u32overflowing_sub", "u32wrapping_mul",
    "u32overflowing_mul", "u32overflowing_add3", "u32wrapping_add3", "u32overflowing_madd",
    "u32wrapping_madd", "u32lt", "u32lte", "u32gt", "u32gte", "u32min", "u32max", "lt", "lte", "gt",
    "gte", "is_odd", "ext2add", "ext2sub", "ext2mul", "ext2neg", "add.5", "mul.3", "sub.1", "eq.0",
    "neq.9", "sdepth", "clk", "pow2_placeholder", "exp.3", "exp.u7", "cdrop_placeholder",
    "u32cast", "u32testw", "u32test", "hperm", "hmerge", "hash", "mem_load.5", "mem_store.7",
    "mem_loadw.9", "mem_storew.11", "push.1.2.3.4", "nop_placeholder",
];

pub fn safe_instr(rng: &mut Rng) -> String {
    loop {
        let s = *rng.pick(SAFE_INSTRS);
        if !s.ends_with("_placeholder") {
            return s.to_string();
        }
    }
}

/// A straight-line body of `n` safe instructions.
pub fn straight(rng: &mut Rng, n: usize) -> String {
    (0..n).map(|_| safe_instr(rng)).collect::<Vec<_>>().join(" ")
}
