//! C16 — standard-library integer arithmetic is exact (u64 and u256 procedures).
use crate::execgen::*;
use crate::util::*;
use crate::Emitter;
use processor::DefaultHost;

const LIMBS: [u64; 8] = [0, 1, 2, 0xFFFF_FFFF, 0xFFFF_FFFE, 0x8000_0000, 0x7FFF_FFFF, 0x0001_0000];

fn limb(rng: &mut Rng) -> u64 {
    if rng.chance(3, 5) {
        LIMBS[rng.below(8) as usize]
    } else {
        rng.below(1 << 32)
    }
}

fn hi(x: u64) -> u64 {
    x >> 32
}
fn lo(x: u64) -> u64 {
    x & 0xFFFF_FFFF
}

fn parse_stack(ans: &str) -> Vec<u64> {
    ans.split("stack=")
        .nth(1)
        .map(|s| s.split(' ').next().unwrap().split(',').filter_map(|x| x.parse().ok()).collect())
        .unwrap_or_default()
}

/// expected result (top first) of a u64 procedure, None = must fail
fn u64_oracle(proc_: &str, a: u64, b: u64) -> Option<Vec<u64>> {
    let two = |x: u64| vec![hi(x), lo(x)];
    Some(match proc_ {
        "overflowing_add" => {
            let (c, o) = a.overflowing_add(b);
            vec![o as u64, hi(c), lo(c)]
        }
        "wrapping_add" => two(a.wrapping_add(b)),
        "wrapping_sub" => two(a.wrapping_sub(b)),
        "overflowing_sub" => {
            let (c, o) = a.overflowing_sub(b);
            vec![o as u64, hi(c), lo(c)]
        }
        "wrapping_mul" => two(a.wrapping_mul(b)),
        "overflowing_mul" => {
            let c = (a as u128) * (b as u128);
            let (h, l) = ((c >> 64) as u64, c as u64);
            vec![hi(h), lo(h), hi(l), lo(l)]
        }
        "lt" => vec![(a < b) as u64],
        "gt" => vec![(a > b) as u64],
        "lte" => vec![(a <= b) as u64],
        "gte" => vec![(a >= b) as u64],
        "eq" => vec![(a == b) as u64],
        "neq" => vec![(a != b) as u64],
        "min" => two(a.min(b)),
        "max" => two(a.max(b)),
        "div" => {
            if b == 0 {
                return None;
            }
            two(a / b)
        }
        "mod" => {
            if b == 0 {
                return None;
            }
            two(a % b)
        }
        "divmod" => {
            if b == 0 {
                return None;
            }
            vec![hi(a % b), lo(a % b), hi(a / b), lo(a / b)]
        }
        "and" => two(a & b),
        "or" => two(a | b),
        "xor" => two(a ^ b),
        _ => unreachable!(),
    })
}

fn u64_unary_oracle(proc_: &str, a: u64) -> Vec<u64> {
    match proc_ {
        "eqz" => vec![(a == 0) as u64],
        "clz" => vec![a.leading_zeros() as u64],
        "ctz" => vec![a.trailing_zeros() as u64],
        "clo" => vec![a.leading_ones() as u64],
        "cto" => vec![a.trailing_ones() as u64],
        _ => unreachable!(),
    }
}

fn u64_shift_oracle(proc_: &str, a: u64, n: u32) -> Vec<u64> {
    let c = match proc_ {
        "shl" => a << n,
        "shr" => a >> n,
        "rotl" => a.rotate_left(n),
        "rotr" => a.rotate_right(n),
        _ => unreachable!(),
    };
    vec![hi(c), lo(c)]
}

fn run_proc(em: &mut Emitter, module: &str, proc_: &str, stack: &[u64], want: Option<Vec<u64>>, tail: &[u64], what: &str) {
    let src = format!("use.std::math::{}\nbegin exec.{}::{} end", module, module, proc_);
    let p = match assemble(None, &src, false) {
        Ok(p) => p,
        Err(e) => {
            em.oracle_failures.push(format!("C16 `{}` does not assemble: {}", src.replace('\n', " "), e));
            return;
        }
    };
    let run = run_impl(&p, stack, DefaultHost::default(), Lies::default(), None, "");
    let req = render_exec_request(&ExecReq { program: &p, stack: stack.to_vec(), max_cycles: None, out: "" }, &run.tape);
    em.emit(req, run.answer.clone());
    match want {
        None => {
            if run.ok {
                em.oracle_failures.push(format!("C16 {}::{} must fail ({}) but returned {}", module, proc_, what, &run.answer[..run.answer.len().min(100)]));
            }
        }
        Some(w) => {
            if !run.ok {
                em.oracle_failures.push(format!("C16 {}::{} failed on {}: {}", module, proc_, what, run.answer));
                return;
            }
            let st = parse_stack(&run.answer);
            let mut full = w.clone();
            full.extend_from_slice(tail);
            if st.len() < full.len() || st[..full.len()] != full[..] {
                em.oracle_failures.push(format!(
                    "C16 {}::{} wrong result on {}: got {:?} want {:?}",
                    module, proc_, what, &st[..full.len().min(st.len())], full
                ));
            }
            // the rest of the stack is untouched: everything below is zero padding
            if st[full.len()..].iter().any(|x| *x != 0) {
                em.oracle_failures.push(format!("C16 {}::{} disturbed the rest of the stack on {}: {:?}", module, proc_, what, st));
            }
        }
    }
}

/// Exports the operation list of every u64 / u256 procedure that compiles to a single span.
pub fn export_stdlib_math(dir: &str) {
    let mut s = String::from(
        "-- GENERATED by `mvh export`: MAST (single spans) of std::math procedures as compiled by the real assembler.\nimport Miden.Model.Op\nnamespace Miden.Generated\n",
    );
    let u64p = [
        "overflowing_add", "wrapping_add", "wrapping_sub", "overflowing_sub", "wrapping_mul",
        "overflowing_mul", "lt", "gt", "lte", "gte", "eq", "neq", "eqz", "min", "max", "div", "mod",
        "divmod", "and", "or", "xor", "shl", "shr", "rotl", "rotr", "clz", "ctz", "clo", "cto",
    ];
    let u256p = ["add_unsafe", "sub_unsafe", "and", "or", "xor", "iszero_unsafe", "eq_unsafe", "mul_unsafe"];
    for (module, procs) in [("u64", &u64p[..]), ("u256", &u256p[..])] {
        for p in procs {
            let src = format!("use.std::math::{}\nbegin exec.{}::{} end", module, module, p);
            match assemble(None, &src, false) {
                Ok(prog) => match prog.root() {
                    vm_core::code_blocks::CodeBlock::Span(_) => {
                        let ops: Vec<String> = block_ops(prog.root()).iter().map(crate::c05::lean_op_pub).collect();
                        s.push_str(&format!("def {}_{} : List Op := [{}]\n", module, p, ops.join(", ")));
                    }
                    _ => s.push_str(&format!("-- {}::{} is not a single span\n", module, p)),
                },
                Err(_) => s.push_str(&format!("-- {}::{} does not assemble\n", module, p)),
            }
        }
    }
    s.push_str("end Miden.Generated\n");
    let path = format!("{}/StdlibMath.lean", dir);
    if std::fs::read_to_string(&path).map(|o| o != s).unwrap_or(true) {
        std::fs::write(&path, s).unwrap();
    }
}

// ---- u256 helpers (little-endian 32-bit limbs) ---------------------------------------------------

fn add256(a: &[u64], b: &[u64]) -> Vec<u64> {
    let mut c = vec![0u64; 8];
    let mut carry = 0u64;
    for i in 0..8 {
        let s = a[i] + b[i] + carry;
        c[i] = s & 0xFFFF_FFFF;
        carry = s >> 32;
    }
    c
}
fn sub256(a: &[u64], b: &[u64]) -> Vec<u64> {
    let mut c = vec![0u64; 8];
    let mut borrow = 0i64;
    for i in 0..8 {
        let mut s = a[i] as i64 - b[i] as i64 - borrow;
        borrow = 0;
        if s < 0 {
            s += 1 << 32;
            borrow = 1;
        }
        c[i] = s as u64;
    }
    c
}
fn mul256(a: &[u64], b: &[u64]) -> Vec<u64> {
    let mut c = vec![0u128; 16];
    for i in 0..8 {
        for j in 0..8 {
            if i + j < 16 {
                c[i + j] += (a[i] as u128) * (b[j] as u128);
            }
        }
    }
    let mut out = vec![0u64; 8];
    let mut carry: u128 = 0;
    for i in 0..8 {
        let s = c[i] + carry;
        out[i] = (s & 0xFFFF_FFFF) as u64;
        carry = s >> 32;
    }
    out
}

pub fn generate(em: &mut Emitter, seed: u64, thorough: bool) {
    let mut rng = Rng::new(seed ^ 0xC16);
    let tail = [77u64, 78, 79];
    let n = if thorough { 1500 } else { 90 };
    let binary = [
        "overflowing_add", "wrapping_add", "wrapping_sub", "overflowing_sub", "wrapping_mul",
        "overflowing_mul", "lt", "gt", "lte", "gte", "eq", "neq", "min", "max", "div", "mod",
        "divmod", "and", "or", "xor",
    ];
    let mut cases = 0u64;
    for p in binary {
        // full limb-boundary grid on {0,1,2^31,2^32-1}^4 in the thorough tier, sampled otherwise
        let grid: [u64; 4] = [0, 1, 0x8000_0000, 0xFFFF_FFFF];
        for g in 0..256u32 {
            if !thorough && g % 7 != (p.len() as u32) % 7 {
                continue;
            }
            let (ah, al, bh, bl) = (grid[(g & 3) as usize], grid[((g >> 2) & 3) as usize], grid[((g >> 4) & 3) as usize], grid[((g >> 6) & 3) as usize]);
            let (a, b) = ((ah << 32) | al, (bh << 32) | bl);
            let mut st = vec![bh, bl, ah, al];
            st.extend_from_slice(&tail);
            run_proc(em, "u64", p, &st, u64_oracle(p, a, b), &tail, &format!("a={} b={}", a, b));
            cases += 1;
        }
        for _ in 0..n {
            let (ah, al, bh, bl) = (limb(&mut rng), limb(&mut rng), limb(&mut rng), limb(&mut rng));
            let (a, b) = ((ah << 32) | al, (bh << 32) | bl);
            let mut st = vec![bh, bl, ah, al];
            st.extend_from_slice(&tail);
            run_proc(em, "u64", p, &st, u64_oracle(p, a, b), &tail, &format!("a={} b={}", a, b));
            cases += 1;
        }
    }
    for p in ["eqz", "clz", "ctz", "clo", "cto"] {
        let mut vals: Vec<u64> = vec![0, 1, u64::MAX, u64::MAX - 1, 1 << 63, (1 << 63) - 1, 0xFFFF_FFFF, 1 << 32, 0xFFFF_FFFF_0000_0000];
        for s in 0..64 {
            vals.push(1u64 << s);
            vals.push(!(1u64 << s));
            vals.push((1u64 << s).wrapping_sub(1));
            vals.push(!((1u64 << s).wrapping_sub(1)));
        }
        for _ in 0..n {
            vals.push((limb(&mut rng) << 32) | limb(&mut rng));
        }
        for (k, a) in vals.iter().enumerate() {
            if !thorough && k % 3 != 0 {
                continue;
            }
            let mut st = vec![hi(*a), lo(*a)];
            st.extend_from_slice(&tail);
            run_proc(em, "u64", p, &st, Some(u64_unary_oracle(p, *a)), &tail, &format!("a={}", a));
            cases += 1;
        }
    }
    for p in ["shl", "shr", "rotl", "rotr"] {
        for sh in 0..64u32 {
            let reps = if thorough { 12 } else { 2 };
            for r in 0..reps {
                let a = match r {
                    0 => u64::MAX,
                    1 => (limb(&mut rng) << 32) | limb(&mut rng),
                    2 => 1,
                    3 => 1 << 63,
                    _ => rng.next(),
                };
                let mut st = vec![sh as u64, hi(a), lo(a)];
                st.extend_from_slice(&tail);
                run_proc(em, "u64", p, &st, Some(u64_shift_oracle(p, a, sh)), &tail, &format!("a_hi={} a_lo={} shift={}:", hi(a), lo(a), sh));
                cases += 1;
            }
        }
    }
    em.stat("u64_cases", cases);

    // ---- u256 ------------------------------------------------------------------------------------
    let mut c256 = 0u64;
    let n256 = if thorough { 800 } else { 60 };
    for p in ["add_unsafe", "sub_unsafe", "and", "or", "xor", "eq_unsafe", "mul_unsafe", "iszero_unsafe"] {
        for k in 0..n256 {
            let mut a: Vec<u64> = (0..8).map(|_| limb(&mut rng)).collect();
            let mut b: Vec<u64> = (0..8).map(|_| limb(&mut rng)).collect();
            if k % 5 == 0 {
                b = a.clone();
            }
            if k % 7 == 0 {
                a = vec![0; 8];
            }
            if k % 11 == 0 {
                a = vec![0xFFFF_FFFF; 8];
            }
            let want: Vec<u64> = match p {
                "add_unsafe" => add256(&a, &b).into_iter().rev().collect(),
                "sub_unsafe" => sub256(&a, &b).into_iter().rev().collect(),
                "and" => (0..8).rev().map(|i| a[i] & b[i]).collect(),
                "or" => (0..8).rev().map(|i| a[i] | b[i]).collect(),
                "xor" => (0..8).rev().map(|i| a[i] ^ b[i]).collect(),
                "eq_unsafe" => vec![(a == b) as u64],
                "mul_unsafe" => mul256(&a, &b).into_iter().rev().collect(),
                _ => vec![a.iter().all(|x| *x == 0) as u64],
            };
            let st: Vec<u64> = if p == "iszero_unsafe" {
                a.iter().rev().copied().collect()
            } else {
                b.iter().rev().chain(a.iter().rev()).copied().collect()
            };
            run_proc(em, "u256", p, &st, Some(want), &[], &format!("a={:?} b={:?}", a, b));
            c256 += 1;
        }
    }
    em.stat("u256_cases", c256);
}
