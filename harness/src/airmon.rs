//! Direct evaluation of the real `ProcessorAir` on real traces (C03 monitor) and on perturbed row
//! pairs (C04 negative monitor).
#![allow(dead_code)]
use air::{trace::*, ProcessorAir, ProvingOptions, PublicInputs};
use processor::{ExecutionTrace, StackInputs};
use vm_core::{polynom, Felt, FieldElement, StarkField};
use winter_air::{Air, AuxTraceRandElements, EvaluationFrame};
use winter_prover::{matrix::ColMatrix, Trace};

pub struct AirCtx {
    pub air: ProcessorAir,
    pub rows: Vec<Vec<Felt>>,
    pub len: usize,
    pub last_step: usize,
    periodic_polys: Vec<Vec<Felt>>,
    g: Felt,
}

impl AirCtx {
    pub fn new(trace: &ExecutionTrace, stack_inputs: StackInputs) -> Self {
        let info = trace.get_info();
        let pub_inputs = PublicInputs::new(trace.program_info().clone(), stack_inputs, trace.stack_outputs().clone());
        let air = ProcessorAir::new(info, pub_inputs, ProvingOptions::default().into());
        let main = trace.main_segment();
        let len = main.num_rows();
        let rows: Vec<Vec<Felt>> = (0..len).map(|r| (0..main.num_cols()).map(|c| main.get(c, r)).collect()).collect();
        let periodic_polys = air.get_periodic_column_polys();
        let g = air.trace_domain_generator();
        let last_step = air.last_step();
        Self { air, rows, len, last_step, periodic_polys, g }
    }

    pub fn periodic_at(&self, step: usize) -> Vec<Felt> {
        let x = self.g.exp((step as u64).into());
        self.periodic_polys
            .iter()
            .map(|p| {
                let num_cycles = self.len / p.len();
                polynom::eval(p, x.exp((num_cycles as u64).into()))
            })
            .collect()
    }

    /// Evaluates all main transition constraints on the row pair (cur, next) placed at `step`.
    pub fn eval(&self, cur: &[Felt], next: &[Felt], step: usize) -> Vec<Felt> {
        let frame = EvaluationFrame::from_rows(cur.to_vec(), next.to_vec());
        let mut out = vec![Felt::ZERO; self.air.context().num_main_transition_constraints()];
        self.air.evaluate_transition(&frame, &self.periodic_at(step), &mut out);
        out
    }

    /// All (step, constraint index) at which the honest trace violates a main transition constraint.
    pub fn honest_violations(&self) -> Vec<(usize, usize)> {
        let mut bad = Vec::new();
        let n = self.len - self.air.context().num_transition_exemptions();
        for step in 0..n {
            let ev = self.eval(&self.rows[step], &self.rows[step + 1], step);
            for (i, e) in ev.iter().enumerate() {
                if *e != Felt::ZERO {
                    bad.push((step, i));
                }
            }
        }
        bad
    }

    /// Boundary assertions of the main segment that do not hold.
    pub fn assertion_violations(&self) -> Vec<String> {
        let mut bad = Vec::new();
        for a in self.air.get_assertions() {
            a.apply(self.len, |step, value| {
                if self.rows[step][a.column()] != value {
                    bad.push(format!("main_trace({}, {}) = {} != {}", a.column(), step, self.rows[step][a.column()].as_int(), value.as_int()));
                }
            });
        }
        bad
    }

    /// Auxiliary segment for the given challenges: transition constraints and assertions.
    pub fn aux_violations(&self, trace: &mut ExecutionTrace, rand: Vec<Felt>) -> (Vec<String>, ColMatrix<Felt>) {
        let mut bad = Vec::new();
        let mut rand_elements = AuxTraceRandElements::new();
        rand_elements.add_segment_elements(rand.clone());
        let aux: ColMatrix<Felt> = trace.build_aux_segment(&[], &rand).expect("aux segment");
        let width = aux.num_cols();
        for a in self.air.get_aux_assertions(&rand_elements) {
            a.apply(self.len, |step, value| {
                if aux.get(a.column(), step) != value {
                    bad.push(format!("aux_trace({}, {}) = {} != {}", a.column(), step, aux.get(a.column(), step).as_int(), value.as_int()));
                }
            });
        }
        let n = self.len - self.air.context().num_transition_exemptions();
        let mut out = vec![Felt::ZERO; self.air.context().num_aux_transition_constraints()];
        for step in 0..n {
            let main_frame = EvaluationFrame::from_rows(self.rows[step].clone(), self.rows[step + 1].clone());
            let cur: Vec<Felt> = (0..width).map(|c| aux.get(c, step)).collect();
            let next: Vec<Felt> = (0..width).map(|c| aux.get(c, step + 1)).collect();
            let aux_frame = EvaluationFrame::from_rows(cur, next);
            self.air.evaluate_aux_transition(&main_frame, &aux_frame, &self.periodic_at(step), &rand_elements, &mut out);
            for (i, e) in out.iter().enumerate() {
                if *e != Felt::ZERO {
                    bad.push(format!("aux transition constraint {} at step {}", i, step));
                }
            }
        }
        (bad, aux)
    }

    pub fn opcode_at(&self, step: usize) -> u8 {
        let mut v = 0u8;
        for b in 0..7 {
            if self.rows[step][DECODER_TRACE_OFFSET + 1 + b] == Felt::ONE {
                v |= 1 << b;
            }
        }
        v
    }
}

pub fn execute_trace(
    p: &vm_core::Program,
    stack: &[u64],
    adv: &[u64],
) -> Result<(ExecutionTrace, StackInputs), String> {
    let mut rev = stack.to_vec();
    rev.reverse();
    let inputs = StackInputs::try_from_values(rev).map_err(|e| format!("{:?}", e))?;
    let host = crate::execgen::host_with_advice(adv);
    let r = std::panic::catch_unwind(std::panic::AssertUnwindSafe(|| {
        processor::execute(p, inputs.clone(), host, processor::ExecutionOptions::default())
    }));
    match r {
        Err(_) => Err("PANIC".into()),
        Ok(Err(e)) => Err(crate::util::canon_err(&e)),
        Ok(Ok(t)) => Ok((t, inputs)),
    }
}
