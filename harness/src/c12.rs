//! C12 — all lookups between trace components balance: every auxiliary running-product /
//! running-sum column reaches its specified terminal value for random challenges.
use crate::airmon::*;
use crate::execgen::*;
use crate::progs::*;
use crate::util::*;
use crate::Emitter;
use vm_core::{Felt, FieldElement, StarkField};
use winter_prover::Trace;

pub const AUX_NAMES: [&str; 7] = [
    "decoder p1 (block stack table)",
    "decoder p2 (block hash table)",
    "decoder p3 (op group table)",
    "stack p1 (overflow table)",
    "range b_range (LogUp)",
    "hasher p1 (sibling table)",
    "chiplets bus b_chip",
];

/// Specified terminal value of aux column `c` (None: fixed by the AIR boundary assertions, which C03
/// checks). The chiplets virtual table ends at the product of all unique kernel procedures
/// (docs/src/design/chiplets/kernel_rom.md), every other table and bus ends at 1.
pub fn expected_last(c: usize, kernel_product: Felt) -> Option<Felt> {
    match c {
        0 | 1 | 2 | 4 | 6 => Some(Felt::ONE),
        5 => Some(kernel_product),
        _ => None,
    }
}
pub fn expected_first(c: usize) -> Option<Felt> {
    match c {
        0 | 2 | 4 | 5 | 6 => Some(Felt::ONE),
        _ => None,
    }
}

/// Product of the kernel procedure table rows (idx, root) computed from the program's kernel,
/// independently of the trace: idx is the position of the procedure root in byte order.
pub fn kernel_product(p: &vm_core::Program, alphas: &[Felt]) -> Felt {
    let mut roots: Vec<[u8; 32]> = p.kernel().proc_hashes().iter().map(|d| <[u8; 32]>::from(*d)).collect();
    roots.sort();
    let mut acc = Felt::ONE;
    for (idx, bytes) in roots.iter().enumerate() {
        let mut v = alphas[0] + alphas[1] * Felt::new(idx as u64);
        for j in 0..4 {
            let mut b = [0u8; 8];
            b.copy_from_slice(&bytes[8 * j..8 * j + 8]);
            v += alphas[2 + j] * Felt::new(u64::from_le_bytes(b));
        }
        acc *= v;
    }
    acc
}

pub fn check_balance(em: &mut Emitter, what: &str, src: &str, p: &vm_core::Program, st: &[u64], adv: &[u64], rng: &mut Rng, counters: &mut [u64; 3]) {
    let (mut trace, inputs) = match execute_trace(p, st, adv) {
        Ok(x) => x,
        Err(_) => return,
    };
    let ctx = AirCtx::new(&trace, inputs);
    counters[0] += 1;
    for _ in 0..2 {
        let rand: Vec<Felt> = (0..16).map(|_| Felt::new(1 + rng.next() % (P - 1))).collect();
        let aux = match std::panic::catch_unwind(std::panic::AssertUnwindSafe(|| trace.build_aux_segment::<Felt>(&[], &rand))) {
            Ok(Some(a)) => a,
            Ok(None) => {
                em.oracle_failures.push(format!("C12 auxiliary segment is not built ({}) `{}`", what, &src[..src.len().min(4000)]));
                return;
            }
            Err(_) => {
                em.oracle_failures.push(format!("C12 building the auxiliary segment panics ({}) `{}` stack={:?} adv={:?}", what, src, st, adv));
                return;
            }
        };
        counters[1] += 1;
        let last = ctx.last_step;
        let kp = kernel_product(p, &rand);
        for c in 0..aux.num_cols() {
            if let Some(e) = expected_first(c) {
                if aux.get(c, 0) != e {
                    em.oracle_failures.push(format!("C12 {} does not start at {}: {} ({}) `{}` stack={:?}", AUX_NAMES[c], e.as_int(), aux.get(c, 0).as_int(), what, &src[..src.len().min(4000)], &st[..st.len().min(40)]));
                }
            }
            if let Some(e) = expected_last(c, kp) {
                if aux.get(c, last) != e {
                    em.oracle_failures.push(format!(
                        "C12 {} does not end at its terminal value {} (requests and responses do not balance): got {} ({}) `{}` stack={:?}",
                        AUX_NAMES[c], e.as_int(), aux.get(c, last).as_int(), what, &src[..src.len().min(4000)], &st[..st.len().min(40)]
                    ));
                }
            }
            // no division by zero / degenerate value on the way: a running product never hits zero
            if c != 4 && c != 3 {
                if (0..=last).any(|r| aux.get(c, r) == Felt::ZERO) {
                    em.oracle_failures.push(format!("C12 {} passes through zero ({}) `{}`", AUX_NAMES[c], what, &src[..src.len().min(200)]));
                }
            }
        }
        counters[2] += aux.num_cols() as u64;
        // independent recount from the main trace -> Lean model of the column builders
        if ctx.len <= 512 {
            emit_recounts(em, &ctx, &aux, &rand);
        }
    }
}

fn csv(v: &[Felt]) -> String {
    if v.is_empty() {
        "-".to_string()
    } else {
        v.iter().map(|f| f.as_int().to_string()).collect::<Vec<_>>().join(",")
    }
}

/// Recounts, from the main trace alone, (a) the rows added to / removed from the stack overflow
/// table and (b) the range-checker table terms and the lookups of the stack and the memory chiplet,
/// and emits them as requests to the Lean model (`buildAuxColumn`, `logUpColumn`); the answer is
/// the column built by the implementation.
pub fn emit_recounts(em: &mut Emitter, ctx: &AirCtx, aux: &winter_prover::matrix::ColMatrix<Felt>, alphas: &[Felt]) {
    use air::trace::{
        chiplets::{MEMORY_D0_COL_IDX, MEMORY_D1_COL_IDX},
        decoder::USER_OP_HELPERS_OFFSET,
        range::{M_COL_IDX, V_COL_IDX},
        stack::{B0_COL_IDX, B1_COL_IDX},
        CHIPLETS_OFFSET, CLK_COL_IDX, DECODER_TRACE_OFFSET, STACK_TRACE_OFFSET,
    };
    let n = ctx.len;
    let call = vm_core::Operation::Call.op_code() as u64;
    let syscall = vm_core::Operation::SysCall.op_code() as u64;
    let end = vm_core::Operation::End.op_code() as u64;
    let sixteen = Felt::new(16);
    // (a) stack overflow table: a row is added when the depth grows, removed when it shrinks and
    // the table is not empty; context switches (CALL, SYSCALL and the END of such a block) reset or
    // restore the depth without shifting.
    let mut resp = vec![];
    let mut req = vec![];
    for i in 0..n - 1 {
        let r = &ctx.rows[i];
        let nx = &ctx.rows[i + 1];
        let op = ctx.opcode_at(i) as u64;
        let hasher = DECODER_TRACE_OFFSET + 8;
        let ctx_switch = op == call || op == syscall || (op == end && (r[hasher + 6] == Felt::ONE || r[hasher + 7] == Felt::ONE));
        let d = r[STACK_TRACE_OFFSET + B0_COL_IDX].as_int();
        let d2 = nx[STACK_TRACE_OFFSET + B0_COL_IDX].as_int();
        let mut a = Felt::ONE;
        let mut b = Felt::ONE;
        if !ctx_switch && i < ctx.last_step {
            if d2 == d + 1 {
                a = alphas[0] + alphas[1] * r[CLK_COL_IDX] + alphas[2] * r[STACK_TRACE_OFFSET + 15] + alphas[3] * r[STACK_TRACE_OFFSET + B1_COL_IDX];
            } else if d2 + 1 == d && r[STACK_TRACE_OFFSET + B0_COL_IDX] != sixteen {
                b = alphas[0] + alphas[1] * r[STACK_TRACE_OFFSET + B1_COL_IDX] + alphas[2] * nx[STACK_TRACE_OFFSET + 15] + alphas[3] * nx[STACK_TRACE_OFFSET + B1_COL_IDX];
            }
        }
        resp.push(a);
        req.push(b);
    }
    let col: Vec<Felt> = (0..n).map(|r| aux.get(3, r)).collect();
    // rows after the last step are built from the random row: compare up to and including last_step
    let upto = ctx.last_step + 1;
    em.emit(
        format!("auxcol {} {} {} {}", aux.get(3, 0).as_int(), upto, csv(&resp[..upto - 1]), csv(&req[..upto - 1])),
        format!("col {}", csv(&col[..upto])),
    );
    // (b) LogUp bus of the range checker
    let alpha = alphas[0];
    let mut rows = vec![];
    for i in 0..upto - 1 {
        let r = &ctx.rows[i];
        let op = ctx.opcode_at(i) as u64;
        let mut lookups: Vec<Felt> = vec![];
        if (64..80).contains(&op) {
            for h in 0..4 {
                lookups.push(r[DECODER_TRACE_OFFSET + USER_OP_HELPERS_OFFSET + h]);
            }
        }
        if r[CHIPLETS_OFFSET] == Felt::ONE && r[CHIPLETS_OFFSET + 1] == Felt::ONE && r[CHIPLETS_OFFSET + 2] == Felt::ZERO {
            lookups.push(r[MEMORY_D0_COL_IDX]);
            lookups.push(r[MEMORY_D1_COL_IDX]);
        }
        rows.push(format!("{},{}|{}", r[M_COL_IDX].as_int(), r[V_COL_IDX].as_int(), csv(&lookups)));
    }
    let colb: Vec<Felt> = (0..upto).map(|r| aux.get(4, r)).collect();
    em.emit(format!("logup {} {} {}", alpha.as_int(), aux.get(4, 0).as_int(), if rows.is_empty() { "-".to_string() } else { rows.join(";") }), format!("col {}", csv(&colb)));
}

pub fn generate(em: &mut Emitter, seed: u64, thorough: bool) {
    let mut rng = Rng::new(seed ^ 0xC12);
    let mut counters = [0u64; 3];
    // programs built around every operation that talks to a chiplet or a virtual table
    let fixed: Vec<(&str, Option<&str>, Vec<u64>, Vec<u64>)> = vec![
        ("begin hperm hperm hmerge hash end", None, vec![1, 2, 3, 4, 5, 6, 7, 8, 9, 10, 11, 12], vec![]),
        ("begin u32and u32xor u32or u32not u32and end", None, vec![7, 9, 3, 5, 1, 2, 0xFFFFFFFF, 0], vec![]),
        ("begin push.5 mem_store.3 mem_load.3 push.1.2.3.4 mem_storew.9 dropw padw mem_loadw.9 mem_load.4294967295 end", None, vec![], vec![]),
        ("begin push.100 movdn.12 mem_stream push.200 movdn.12 adv_pipe end", None, vec![], vec![1, 2, 3, 4, 5, 6, 7, 8]),
        ("proc.f.2 push.7 loc_store.0 loc_load.1 add end begin call.f exec.f end", None, vec![], vec![]),
        ("proc.f push.1 drop end begin syscall.k1 call.f syscall.k2 end", Some("export.k1 push.1 drop end\nexport.k2 caller dropw padw dropw end\n"), vec![], vec![]),
        ("proc.f push.3 add end begin procref.f dynexec dropw procref.f dyncall dropw end", None, vec![4], vec![]),
        ("begin push.1 while.true push.9 drop push.0 end push.3 push.2 neq.0 while.true sub.1 dup.0 neq.0 end end", None, vec![], vec![]),
        ("begin repeat.30 push.1 push.2 add drop end end", None, vec![], vec![]),
        ("begin push.1 if.true push.2 else push.3 end push.0 if.true push.4 else push.5 end end", None, vec![], vec![]),
        ("begin u32split u32overflowing_add u32overflowing_mul u32overflowing_madd u32divmod u32assert2 end", None, vec![77, 5, 3, 9, 2, 1], vec![]),
        ("begin push.1.2.3.4.5.6.7.8 push.9.10.11.12.13.14.15.16 push.17.18.19.20 drop drop drop drop drop drop end", None, vec![], vec![]),
    ];
    // programs whose cycle count is 2^k - 1 (no room for a HALT row before the fix), around it, and
    // spans whose last batch holds a single operation
    let mut sized: Vec<String> = vec![];
    for n in [27usize, 28, 29, 59, 60, 61, 123, 124, 125, 251, 252, 253] {
        sized.push(format!("begin repeat.{} swap end end", n));
    }
    for n in 60..82usize {
        sized.push(format!("begin repeat.{} push.3 drop end end", n));
    }
    for src in sized.iter() {
        match assemble(None, src, false) {
            Ok(p) => check_balance(em, "sized", src, &p, &[], &[], &mut rng, &mut counters),
            Err(e) => em.oracle_failures.push(format!("C12 fixed source does not assemble: {} :: {}", src, e)),
        }
    }
    // power-of-two boundary shapes of every trace component (memory-last / kernel-last chiplets,
    // range table, cycles)
    for (what, k, src, st) in crate::c03::boundary_programs(if thorough { 12 } else { 4 }) {
        if let Ok(p) = assemble(k.as_deref(), &src, false) {
            check_balance(em, &what, &src[..src.len().min(200)], &p, &st, &[], &mut rng, &mut counters);
        }
    }
    // control blocks nested directly in each other (LOOP in LOOP, ...), loops entered / repeated / skipped
    for (i, (p, bits)) in crate::c13::nested_programs(&mut rng, if thorough { 200 } else { 40 }).iter().enumerate() {
        check_balance(em, &format!("nested control blocks #{}", i), "raw MAST: JOIN/SPLIT/LOOP tree over NOOP spans", p, bits, &[], &mut rng, &mut counters);
    }
    // range-checker gaps of special sizes (powers of three, multiples of the largest stride)
    for (what, k, src, st) in crate::c03::range_gap_programs(seed, if thorough { 200 } else { 30 }) {
        if let Ok(p) = assemble(k.as_deref(), &src, false) {
            check_balance(em, &what, &src[..src.len().min(200)], &p, &st, &[], &mut rng, &mut counters);
        }
    }
    // kernels: unused procedures, one procedure called several times, syscalls from nested calls
    let kern = "export.k1 push.1 drop end\nexport.k2 caller dropw padw dropw end\nexport.k3 push.7 mem_store.5 drop end\nexport.k4 swap swap end\n";
    for src in [
        "begin push.1 drop end",
        "begin syscall.k3 end",
        "begin syscall.k1 syscall.k1 syscall.k1 end",
        "proc.f syscall.k2 syscall.k3 end proc.g call.f syscall.k1 end begin call.g syscall.k2 exec.f end",
        "begin push.1 if.true syscall.k4 else syscall.k1 end repeat.3 syscall.k4 end end",
    ] {
        match assemble(Some(kern), src, false) {
            Ok(p) => check_balance(em, "kernel", src, &p, &[1, 2, 3], &[], &mut rng, &mut counters),
            Err(e) => em.oracle_failures.push(format!("C12 fixed source does not assemble: {} :: {}", src, e)),
        }
    }
    for (src, k, st, adv) in fixed.iter() {
        match assemble(*k, src, false) {
            Ok(p) => check_balance(em, "fixed", src, &p, st, adv, &mut rng, &mut counters),
            Err(e) => em.oracle_failures.push(format!("C12 fixed source does not assemble: {} :: {}", src, e)),
        }
    }
    // Merkle operations (hasher bus + sibling table)
    {
        use processor::{crypto::{MerkleStore, MerkleTree}, AdviceInputs, DefaultHost, MemAdviceProvider};
        let leaves: Vec<vm_core::Word> = (0..8u64).map(|i| [Felt::new(i + 1), Felt::new(2 * i), Felt::new(7), Felt::new(i * i)]).collect();
        let tree = MerkleTree::new(leaves.clone()).unwrap();
        let store = MerkleStore::from(&tree);
        let root: vm_core::Word = tree.root().into();
        for (src, extra) in [("begin mtree_get end", vec![]), ("begin mtree_set end", vec![9u64, 8, 7, 6]), ("begin mtree_verify end", vec![]), ("begin mtree_get dropw push.5 push.3 mtree_get end", vec![])] {
            let p = assemble(None, src, false).unwrap();
            let mut st: Vec<u64> = vec![3, 5];
            st.extend(root.iter().rev().map(|f| f.as_int()));
            st.extend(extra.iter());
            if src.contains("mtree_verify") {
                // mtree_verify needs [V, d, i, R]
                st = leaves[5].iter().rev().map(|f| f.as_int()).collect();
                st.extend([3u64, 5]);
                st.extend(root.iter().rev().map(|f| f.as_int()));
            }
            let mut rev = st.clone();
            rev.reverse();
            let inputs = processor::StackInputs::try_from_values(rev).unwrap();
            let host = DefaultHost::new(MemAdviceProvider::from(AdviceInputs::default().with_merkle_store(store.clone())));
            if let Ok(mut trace) = processor::execute(&p, inputs.clone(), host, processor::ExecutionOptions::default()) {
                let ctx = AirCtx::new(&trace, inputs);
                counters[0] += 1;
                let rand: Vec<Felt> = (0..16).map(|_| Felt::new(1 + rng.next() % (P - 1))).collect();
                let aux = trace.build_aux_segment::<Felt>(&[], &rand).expect("aux");
                for c in 0..aux.num_cols() {
                    if let Some(e) = expected_last(c, Felt::ONE) {
                        if aux.get(c, ctx.last_step) != e {
                            em.oracle_failures.push(format!("C12 {} does not end at its terminal value {} for `{}`: got {}", AUX_NAMES[c], e.as_int(), src, aux.get(c, ctx.last_step).as_int()));
                        }
                    }
                }
            } else {
                em.oracle_failures.push(format!("C12 merkle program failed: {}", src));
            }
        }
    }
    // general programs
    let n = if thorough { 3000 } else { 300 };
    for i in 0..n {
        let d = rng.below(4) as u32;
        let l = 1 + rng.below(5) as usize;
        let (k, src) = gen_program(&mut rng, i % 3 == 0, d, l);
        if let Ok(p) = assemble(k.as_deref(), &src, false) {
            let st = random_stack(&mut rng);
            let adv = random_advice(&mut rng);
            check_balance(em, "general", &src, &p, &st, &adv, &mut rng, &mut counters);
            if i % 4 == 0 {
                exec_case(em, &p, &st, &adv, None, "ops");
            }
        }
    }
    em.stat("traces", counters[0]);
    em.stat("aux_segments", counters[1]);
    em.stat("aux_columns_checked", counters[2]);
}
