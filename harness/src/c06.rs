//! C06 — control flow and procedure inlining.
use crate::execgen::*;
use crate::progs::*;
use crate::util::*;
use crate::Emitter;

fn run_src(src: &str, st: &[u64], adv: &[u64]) -> Option<String> {
    let p = assemble(None, src, false).ok()?;
    Some(run_impl(&p, st, host_with_advice(adv), Lies::default(), None, "").answer)
}

/// Ignores the clock (different block structure) and compares stack / error class.
fn strip_clk(a: &str) -> String {
    a.split(' ').filter(|t| !t.starts_with("clk=")).collect::<Vec<_>>().join(" ")
}

pub fn generate(em: &mut Emitter, seed: u64, thorough: bool) {
    let mut rng = Rng::new(seed ^ 0xC06);
    let n = if thorough { 3000 } else { 250 };
    // (1) model correspondence on control-flow-heavy programs, conditions of every kind
    let (mut ok, mut err) = (0u64, 0u64);
    for _ in 0..n {
        let depth = 1 + rng.below(4) as u32;
        let len = 1 + rng.below(4) as usize;
        let (k, src) = gen_program_nb(&mut rng, false, depth, len, 10);
        if let Ok(p) = assemble(k.as_deref(), &src, false) {
            let st = random_stack(&mut rng);
            let adv = random_advice(&mut rng);
            if exec_case(em, &p, &st, &adv, None, "sys").ok { ok += 1 } else { err += 1 }
        }
    }
    em.stat("programs_ok", ok);
    em.stat("programs_err", err);

    // (2) decision points with every kind of condition value, placed by construction
    let conds: [u64; 7] = [0, 1, 2, 3, 4294967296, 18446744069414584320, 18446744069414584319];
    let mut decided = 0u64;
    for &c in &conds {
        for &c2 in &conds {
            let progs = [
                (format!("begin push.{c} if.true push.11 else push.22 end end"), "if", c),
                (format!("begin push.{c} if.true push.11 end end"), "if-noelse", c),
                (format!("begin push.{c} while.true push.33 push.{c2} end end"), "while", c),
                (format!("begin push.1 push.{c} if.true push.{c2} if.true push.5 else push.6 end else push.7 end end"), "nested-if", c),
                (format!("proc.f push.{c2} if.true push.8 else push.9 end end begin push.{c} if.true exec.f else exec.f end end"), "if-in-proc", c),
                (format!("begin push.{c} while.true push.{c2} while.true push.0 end push.0 end end"), "nested-while", c),
                (format!("begin repeat.3 push.{c} if.true push.1 else push.2 end end end"), "if-in-repeat", c),
            ];
            for (src, kind, _) in progs.iter() {
                let p = match assemble(None, src, false) {
                    Ok(p) => p,
                    Err(e) => {
                        em.oracle_failures.push(format!("C06 source does not assemble: {} :: {}", src, e));
                        continue;
                    }
                };
                let r = exec_case(em, &p, &[], &[], Some(5000), "");
                decided += 1;
                // oracle: expected outcome computed from the documented semantics
                let expect_fail = match *kind {
                    "if" | "if-noelse" | "if-in-repeat" => c > 1,
                    "while" => c > 1 || (c == 1 && c2 > 1),
                    "nested-if" => c > 1 || (c == 1 && c2 > 1),
                    "if-in-proc" => c > 1 || c2 > 1,
                    "nested-while" => c > 1 || (c == 1 && c2 > 1),
                    _ => false,
                };
                let diverges = (*kind == "while" && c == 1 && c2 == 1)
                    || (*kind == "nested-while" && c == 1 && c2 == 1);
                if diverges {
                    continue;
                }
                if expect_fail && r.ok {
                    em.oracle_failures.push(format!(
                        "C06 non-binary condition accepted ({}, cond={}, second={}): `{}` -> {}",
                        kind, c, c2, src, &r.answer[..r.answer.len().min(60)]
                    ));
                }
                if !expect_fail && !r.ok {
                    em.oracle_failures.push(format!(
                        "C06 binary conditions rejected ({}, cond={}, second={}): `{}` -> {}",
                        kind, c, c2, src, r.answer
                    ));
                }
            }
        }
    }
    // (2b) loops that go around k times and then leave an arbitrary value as the exit condition,
    //      alone and nested inside if / while / exec / call / repeat
    for iters in [1u64, 2, 3, 5] {
        for &c2 in &conds {
            let lp = format!("push.{iters} push.1 while.true push.1 sub dup neq.0 if.true push.1 else push.{c2} end end drop");
            let progs = [
                (format!("begin {lp} end"), "plain"),
                (format!("begin push.1 if.true {lp} else push.3 end end"), "in-if"),
                (format!("begin push.2 push.1 while.true {lp} push.1 sub dup neq.0 end drop end"), "in-while"),
                (format!("proc.f {lp} end begin exec.f exec.f end"), "in-exec"),
                (format!("proc.f {lp} end begin call.f end"), "in-call"),
                (format!("begin repeat.2 {lp} end end"), "in-repeat"),
            ];
            for (src, kind) in progs.iter() {
                let p = match assemble(None, src, false) {
                    Ok(p) => p,
                    Err(e) => {
                        em.oracle_failures.push(format!("C06 source does not assemble: {} :: {}", src, e));
                        continue;
                    }
                };
                let r = exec_case(em, &p, &[], &[], Some(5000), "");
                decided += 1;
                let expect_fail = c2 != 0;
                if c2 == 1 {
                    // never exits: stopped by the cycle limit, which is a failure as well
                }
                if expect_fail && r.ok {
                    em.oracle_failures.push(format!(
                        "C06 non-binary condition accepted (while, {} after {} iterations, exit value {}): `{}` -> {}",
                        kind, iters, c2, src, &r.answer[..r.answer.len().min(60)]
                    ));
                }
                if !expect_fail && !r.ok {
                    em.oracle_failures.push(format!("C06 binary loop conditions rejected ({} after {} iterations): `{}` -> {}", kind, iters, src, r.answer));
                }
            }
        }
    }
    em.stat("decision_point_programs", decided);

    // (3) repeat.n == n textual copies ; exec.f == body pasted (procedures without locals)
    let m = if thorough { 1500 } else { 150 };
    let mut meta = 0u64;
    for _ in 0..m {
        let mut g = ProgGen::new(&mut rng);
        g.nonbinary_pct = 0;
        let body = g.body(1, 2);
        let nrep = 1 + g.rng.below(5) as usize;
        let pre = g.straight(3).0;
        let post = g.straight(2).0;
        let straight_body = g.straight(4).0;
        if body.contains("clk") || pre.contains("clk") || post.contains("clk") {
            continue;
        }
        let a = format!("begin {} repeat.{} {} end {} end", pre, nrep, body, post);
        let b = format!("begin {} {} {} end", pre, vec![body.clone(); nrep].join(" "), post);
        let st = random_stack(&mut rng);
        let adv = random_advice(&mut rng);
        if let (Some(x), Some(y)) = (run_src(&a, &st, &adv), run_src(&b, &st, &adv)) {
            meta += 1;
            if strip_clk(&x) != strip_clk(&y) {
                em.oracle_failures.push(format!("C06 repeat.n differs from n copies: `{}` -> {} vs {}", a, x, y));
            }
        }
        // the procedure body may end in (or consist of operations followed by) decorators and advice
        // injectors whose effect the caller observes afterwards through the advice stack
        let (tail, observe) = match rng.below(4) {
            0 => ("", ""),
            1 => (" push.3.0.7.0 adv.push_u64div", " adv_push.2 add movdn.4 dropw"),
            2 => (" push.9.0.4.0 emit.5 adv.push_u64div trace.2", " adv_push.1 movdn.4 dropw"),
            _ => (" trace.9", ""),
        };
        let body = format!("{}{}", body, tail);
        let post = format!("{}{}", observe, post);
        let c = format!("proc.f {} end begin {} exec.f {} exec.f end", body, pre, post);
        let d = format!("begin {} {} {} {} end", pre, body, post, body);
        if let (Some(x), Some(y)) = (run_src(&c, &st, &adv), run_src(&d, &st, &adv)) {
            meta += 1;
            if strip_clk(&x) != strip_clk(&y) {
                em.oracle_failures.push(format!("C06 exec differs from inlined body: `{}` -> {} vs {}", c, x, y));
            }
        }
        // the same with a straight-line procedure body (a single span), where an assembler may merge
        // the callee's operations into the caller's span
        let sbody = format!("{}{}", straight_body, tail);
        if !sbody.contains("clk") {
            let c = format!("proc.f {} end begin {} exec.f {} exec.f end", sbody, pre, post);
            let d = format!("begin {} {} {} {} end", pre, sbody, post, sbody);
            if let (Some(x), Some(y)) = (run_src(&c, &st, &adv), run_src(&d, &st, &adv)) {
                meta += 1;
                if strip_clk(&x) != strip_clk(&y) {
                    em.oracle_failures.push(format!("C06 exec differs from inlined body: `{}` -> {} vs {}", c, x, y));
                }
            }
        }
    }
    em.stat("metamorphic_pairs", meta);

    // (4) exec of a procedure with its own locals frame behaves like the body at the call site with
    //     a fresh frame: whatever the last node of the body is (plain operation, if/else, while,
    //     repeat, exec, call) and whatever decorator-only instructions surround it, the caller's
    //     frame pointer and the caller's locals are the same before and after the exec, and the
    //     stack effect equals that of the body executed without the frame checks
    let lasts: [(&str, &str); 7] = [
        ("plain", "push.5 add"),
        ("if", "push.1 if.true push.5 add else push.6 add end"),
        ("if-noelse", "push.0 if.true push.5 add end"),
        ("while", "push.1 while.true push.5 add push.0 end"),
        ("repeat", "repeat.2 push.5 add end"),
        ("exec", "exec.h"),
        ("call", "call.h"),
    ];
    let decos: [&str; 5] = ["", "emit.1", "trace.2", "emit.1 trace.2", "push.3 drop emit.1"];
    let mut frames = 0u64;
    for (lname, last) in lasts.iter() {
        for deco_after in decos.iter() {
            for deco_before in ["", "emit.7"] {
                for nloc in [1u32, 2, 5] {
                    let body = format!("{} push.9 loc_store.0 loc_load.0 add {} {}", deco_before, last, deco_after);
                    let checked = format!(
                        "proc.h push.2 add end\nproc.f.{nloc} {body} end\nproc.g.3 push.77 loc_store.2 locaddr.0 mem_store.5000 exec.f locaddr.0 mem_load.5000 assert_eq loc_load.2 push.77 assert_eq exec.f locaddr.0 mem_load.5000 assert_eq end\nbegin push.1 exec.g end",
                        nloc = nloc, body = body);
                    // the same computation without the frame checks (and without g's own locals)
                    let plain = format!(
                        "proc.h push.2 add end\nproc.f.{nloc} {body} end\nbegin push.1 exec.f exec.f end",
                        nloc = nloc, body = body);
                    let (pc, pp) = match (assemble(None, &checked, false), assemble(None, &plain, false)) {
                        (Ok(a), Ok(b)) => (a, b),
                        (a, b) => {
                            em.oracle_failures.push(format!("C06 frame program does not assemble ({} / decorators `{}`): {:?} {:?} :: {}", lname, deco_after, a.err().map(|e| e.to_string()), b.err().map(|e| e.to_string()), checked));
                            continue;
                        }
                    };
                    let rc = exec_case(em, &pc, &[], &[], Some(5000), "");
                    let rp = exec_case(em, &pp, &[], &[], Some(5000), "");
                    frames += 1;
                    if !rp.ok {
                        em.oracle_failures.push(format!("C06 frame program (plain form) fails: {} :: {}", rp.answer, plain));
                        continue;
                    }
                    if !rc.ok {
                        em.oracle_failures.push(format!(
                            "C06 exec of a procedure with locals disturbs the caller's frame (last node {}, decorators before `{}` after `{}`, {} locals): {} :: {}",
                            lname, deco_before, deco_after, nloc, rc.answer, checked));
                        continue;
                    }
                    let stack_of = |a: &str| a.split("stack=").nth(1).map(|x| x.split(' ').next().unwrap_or("").to_string()).unwrap_or_default();
                    if stack_of(&rc.answer) != stack_of(&rp.answer) {
                        em.oracle_failures.push(format!(
                            "C06 exec inside a procedure with locals computes a different stack than the plain form (last node {}, decorators `{}`): {} vs {} :: {}",
                            lname, deco_after, stack_of(&rc.answer), stack_of(&rp.answer), checked));
                    }
                }
            }
        }
    }
    em.stat("frame_discipline_programs", frames);
}
