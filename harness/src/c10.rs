//! C10 — serialised code and data round-trip and recompile to the same program.
//! C19 — decoders of untrusted bytes never panic and accept only what they can re-encode.
use crate::execgen::*;
use crate::util::*;
use crate::Emitter;
use assembly::ast::{AstSerdeOptions, ModuleAst, ProgramAst};
use assembly::{Assembler, Library, MaslLibrary};
use processor::ProgramInfo;
use std::panic::{catch_unwind, AssertUnwindSafe};
use vm_core::{
    utils::{Deserializable, Serializable, SliceReader},
    Kernel, StackInputs, StackOutputs,
};

pub fn extra_instrs() -> Vec<String> {
    let mut v: Vec<String> = [
        "mem_load", "mem_load.5", "mem_loadw", "mem_loadw.4294967295", "mem_store", "mem_store.0",
        "mem_storew", "mem_storew.77", "mem_stream", "adv_pipe", "adv_push.1", "adv_push.16",
        "adv_loadw", "adv.push_mapval", "adv.push_mapval.2", "adv.push_mapvaln", "adv.push_mapvaln.1",
        "adv.push_mtnode", "adv.push_u64div", "adv.push_ext2intt", "adv.push_smtpeek",
        "adv.insert_mem", "adv.insert_hdword", "adv.insert_hdword.3", "adv.insert_hperm",
        "adv.push_sig.rpo_falcon512", "hash", "hmerge", "hperm", "mtree_get", "mtree_set",
        "mtree_merge", "mtree_verify", "fri_ext2fold4", "rcomb_base", "dynexec", "dyncall",
        "debug.stack", "debug.stack.5", "debug.mem", "debug.mem.3", "debug.mem.3.9", "emit.42",
        "trace.7", "breakpoint", "clk", "sdepth", "push.0x0000000000000001", "push.1.2.3.4.5",
        "push.18446744069414584320.18446744069414584319.4294967296.65536",
        "push.255.256.65535.65536.4294967295.4294967296", "exec.lp", "call.lp", "procref.lp",
        "locaddr.0", "loc_load.1", "loc_loadw.0", "loc_store.1", "loc_storew.0", "debug.local",
        "debug.local.1", "debug.local.0.1",
        // parameter boundaries of the instructions that carry u8 / u16 / u32 parameters
        "debug.stack.1", "debug.stack.255", "debug.stack.256", "debug.stack.300", "debug.stack.65535",
        "debug.mem.255", "debug.mem.256", "debug.mem.65536", "debug.mem.4294967295", "debug.mem.255.256",
        "debug.mem.65535.65536", "debug.mem.0.4294967295", "debug.local.255", "debug.local.256", "debug.local.65535",
        "debug.local.255.256", "debug.local.0.65535", "emit.0", "emit.255", "emit.256", "emit.65536", "emit.4294967295",
        "trace.0", "trace.255", "trace.256", "trace.65536", "trace.4294967295",
        "adv.push_mapval.0", "adv.push_mapval.3", "adv.push_mapvaln.3", "adv.insert_hdword.0", "adv.insert_hdword.255",
        "adv_push.2", "adv_push.15", "mem_load.255", "mem_load.256", "mem_load.65536", "mem_storew.65535",
        "loc_load.255", "loc_store.256", "loc_loadw.65535", "locaddr.65535",
        "call.0x0000000000000000000000000000000000000000000000000000000000000001",
    ]
    .iter()
    .map(|s| s.to_string())
    .collect();
    v.extend(crate::c05::instr_forms());
    v
}

fn gen_body(rng: &mut Rng, instrs: &[String], depth: u32, in_proc: bool) -> String {
    let n = 1 + rng.below(6) as usize;
    let mut parts = Vec::new();
    for _ in 0..n {
        let k = if depth == 0 { 0 } else { rng.below(8) };
        match k {
            0..=4 => {
                let mut i = rng.pick(instrs).clone();
                if !in_proc && (i.starts_with("loc") || i.starts_with("debug.local")) {
                    i = "push.1".into();
                }
                parts.push(i);
            }
            5 => parts.push(format!("if.true {} else {} end", gen_body(rng, instrs, depth - 1, in_proc), gen_body(rng, instrs, depth - 1, in_proc))),
            6 => parts.push(format!("while.true {} end", gen_body(rng, instrs, depth - 1, in_proc))),
            _ => parts.push(format!("repeat.{} {} end", 1 + rng.below(5), gen_body(rng, instrs, depth - 1, in_proc))),
        }
    }
    parts.join(" ")
}

/// `use` lines of every shape the parser accepts: none, plain, aliased (`->name`), several modules
/// with the same last path component told apart by an alias, unused imports, modules no library
/// provides. `u64` stays bound to std::math::u64 whenever the first element is true.
pub fn gen_imports(rng: &mut Rng) -> (bool, String) {
    match rng.below(8) {
        0 => (false, String::new()),
        1 => (true, "use.std::math::u64\nuse.std::crypto::hashes::native\n".into()),
        2 => (true, "use.std::math::u64\nuse.std::math::u256->big\n".into()),
        3 => (true, "use.std::math::u64\nuse.dummy::math::u64->other\n".into()),
        4 => (true, "use.std::math::u256->zz\nuse.std::math::u64\nuse.other::lib::u256\n".into()),
        5 => (false, "use.std::math::u64->bigint\nuse.std::sys->u64x\n".into()),
        6 => (true, "use.aaa::u64->m1\nuse.zzz::u64->m0\nuse.std::math::u64\n".into()),
        _ => (false, "use.std::crypto::hashes::native->u64\n".into()),
    }
}

pub fn gen_program_source(rng: &mut Rng, instrs: &[String]) -> String {
    let mut s = String::new();
    let (has_u64, uses) = gen_imports(rng);
    s.push_str(&uses);
    let _ = has_u64;
    s.push_str(&format!("#! docs of lp\nproc.lp.2\n {}\nend\n", gen_body(rng, instrs, 1, true).replace("exec.lp", "push.1").replace("call.lp", "push.2").replace("procref.lp", "push.3")));
    if rng.chance(1, 2) {
        s.push_str("proc.other exec.lp exec.u64_placeholder end\n");
    }
    s = s.replace("exec.u64_placeholder", if has_u64 { "exec.u64::wrapping_add" } else if uses.contains("->bigint") { "exec.bigint::wrapping_add" } else { "push.9" });
    s.push_str(&format!("begin\n {}\nend", gen_body(rng, instrs, 3, false)));
    s
}

pub fn gen_module_source(rng: &mut Rng, instrs: &[String]) -> String {
    let mut s = String::from("#! module docs\n#! second line\n\n");
    match rng.below(4) {
        0 => s.push_str("use.std::math::u64\nuse.std::sys\n"),
        1 => s.push_str("use.std::math::u64\nuse.std::sys\nuse.dummy::math::u64->other\n"),
        2 => s.push_str("use.std::sys\nuse.std::math::u256->big\nuse.std::math::u64\n"),
        _ => s.push_str("use.aaa::sys->m1\nuse.std::math::u64\nuse.std::sys\nuse.zzz::u64->m0\n"),
    }
    s.push_str(&format!("proc.lp.3\n {}\nend\n", gen_body(rng, instrs, 1, true).replace("exec.lp", "push.1").replace("call.lp", "push.2").replace("procref.lp", "push.3")));
    s.push_str(&format!("#! exported one\nexport.e1.1\n {}\nend\n", gen_body(rng, instrs, 2, true)));
    s.push_str("export.u64::wrapping_add->my_add\nexport.sys::truncate_stack\n");
    s.push_str(&format!("export.e2\n {}\nend\n", gen_body(rng, instrs, 1, false).replace("loc_", "mem_").replace("locaddr.0", "push.0")));
    s
}

fn hex(b: &[u8]) -> String {
    b.iter().map(|x| format!("{:02x}", x)).collect()
}

pub fn generate_c10(em: &mut Emitter, seed: u64, thorough: bool) {
    let mut rng = Rng::new(seed ^ 0xC10);
    let instrs = extra_instrs();
    em.stat("instruction_texts", instrs.len());
    // every instruction text on its own: parse -> bytes -> parse back -> equal, compile equal
    let (mut ok_rt, mut parse_err) = (0u64, 0u64);
    let mut variants_seen = std::collections::BTreeSet::new();
    let mut check_prog = |em: &mut Emitter, src: &str, ok_rt: &mut u64, parse_err: &mut u64| {
        let ast = match catch_unwind(AssertUnwindSafe(|| ProgramAst::parse(src))) {
            Ok(Ok(a)) => a,
            Ok(Err(_)) => {
                *parse_err += 1;
                return;
            }
            Err(_) => {
                em.oracle_failures.push(format!("C10 parser panicked on `{}`", &src[..src.len().min(200)]));
                return;
            }
        };
        for imports in [true, false] {
            let bytes = ast.to_bytes(AstSerdeOptions::new(imports));
            let back = match catch_unwind(AssertUnwindSafe(|| ProgramAst::from_bytes(&bytes))) {
                Ok(Ok(b)) => b,
                Ok(Err(e)) => {
                    em.oracle_failures.push(format!("C10 ProgramAst does not deserialise (imports={}): {:?} :: `{}`", imports, e, &src[..src.len().min(300)]));
                    continue;
                }
                Err(_) => {
                    em.oracle_failures.push(format!("C10 ProgramAst::from_bytes panicked (imports={}) :: `{}`", imports, &src[..src.len().min(300)]));
                    continue;
                }
            };
            let mut expect = ast.clone();
            if !imports {
                expect.clear_imports();
            }
            // source locations are not part of the byte encoding: compare modulo locations
            let mut a2 = expect.clone();
            let mut b2 = back.clone();
            let norm = |p: &mut ProgramAst| {
                let bytes = p.to_bytes(AstSerdeOptions::new(true));
                *p = ProgramAst::from_bytes(&bytes).unwrap();
            };
            norm(&mut a2);
            norm(&mut b2);
            if a2 != b2 || back.to_bytes(AstSerdeOptions::new(imports)) != bytes || expect.import_info() != back.import_info() {
                em.oracle_failures.push(format!("C10 ProgramAst changed by the round trip (imports={}) :: `{}`", imports, &src[..src.len().min(300)]));
                continue;
            }
            *ok_rt += 1;
            if imports {
                // source locations written and reloaded
                let mut loc = Vec::new();
                ast.write_source_locations(&mut loc);
                let mut b3 = back.clone();
                match b3.load_source_locations(&mut SliceReader::new(&loc)) {
                    Ok(()) => {
                        if b3 != ast {
                            em.oracle_failures.push(format!("C10 ProgramAst with reloaded source locations differs from the original :: `{}`", &src[..src.len().min(300)]));
                        }
                    }
                    Err(e) => em.oracle_failures.push(format!("C10 source locations do not reload: {:?} :: `{}`", e, &src[..src.len().min(300)])),
                }
                // recompilation equality
                if src.starts_with("# nocompile") {
                    continue;
                }
                let asm = || Assembler::default().with_library(&stdlib::StdLibrary::default()).unwrap();
                let r1 = catch_unwind(AssertUnwindSafe(|| asm().compile_ast(&ast)));
                let r2 = catch_unwind(AssertUnwindSafe(|| asm().compile_ast(&back)));
                match (r1, r2) {
                    (Ok(Ok(p1)), Ok(Ok(p2))) => {
                        if p1.hash() != p2.hash() {
                            em.oracle_failures.push(format!("C10 round-tripped AST compiles to a different MAST root :: `{}`", &src[..src.len().min(300)]));
                        }
                    }
                    (Ok(Err(_)), Ok(Err(_))) => {}
                    (Err(_), Err(_)) => {}
                    _ => em.oracle_failures.push(format!("C10 original and round-tripped AST differ in assemblability :: `{}`", &src[..src.len().min(300)])),
                }
            }
        }
    };
    for i in &instrs {
        let src = format!("proc.lp.2 push.1 end begin {} end", i);
        variants_seen.insert(i.split('.').next().unwrap().to_string());
        check_prog(em, &src, &mut ok_rt, &mut parse_err);
    }
    // size boundaries of every length / count field of the byte format (u8 vs u16 boundaries):
    // body lengths, number of procedures, locals, docs length, label length, nesting depth,
    // repeat counts, word-sized pushes
    {
        let mut sized: Vec<String> = Vec::new();
        for n in [1usize, 2, 254, 255, 256, 257, 300, 1000] {
            sized.push(format!("begin {} end", vec!["add"; n].join(" ")));
            sized.push(format!("proc.lp.2 {} end begin exec.lp end", vec!["swap"; n].join(" ")));
            sized.push(format!("begin push.1 if.true {} else {} end end", vec!["neg"; n].join(" "), vec!["drop"; (n % 7) + 1].join(" ")));
            sized.push(format!("begin push.0 while.true {} push.0 end end", vec!["incr"; n].join(" ")));
            sized.push(format!("begin repeat.{} swap end end", n));
        }
        if thorough {
            sized.push(format!("begin {} end", vec!["add"; 65535].join(" ")));
        }
        for n in [1usize, 2, 255, 256, 257, 400] {
            let procs: String = (0..n).map(|i| format!("proc.p{} push.{} end\n", i, i)).collect();
            sized.push(format!("{}begin exec.p0 exec.p{} end", procs, n - 1));
        }
        for locals in [0usize, 1, 255, 256, 257, 65535] {
            sized.push(format!("proc.lp.{} push.1 end begin exec.lp end", locals));
        }
        for n in [1usize, 254, 255, 256, 257, 1000, 65535] {
            sized.push(format!("#! {}\nproc.lp push.1 end begin exec.lp end", "d".repeat(n.saturating_sub(0))));
        }
        for n in [1usize, 2, 100, 254, 255] {
            let name = "q".repeat(n);
            sized.push(format!("proc.{name} push.1 end begin exec.{name} call.{name} procref.{name} end", name = name));
        }
        for depth in [1usize, 5, 20, 60] {
            let mut src = String::from(if depth > 10 { "# nocompile\nbegin " } else { "begin " });
            for d in 0..depth {
                src.push_str(if d % 3 == 0 { "push.1 if.true " } else if d % 3 == 1 { "repeat.2 " } else { "push.0 while.true " });
            }
            src.push_str("push.3 drop ");
            for d in (0..depth).rev() {
                src.push_str(if d % 3 == 2 { "push.0 end " } else { "end " });
            }
            src.push_str("end");
            sized.push(src);
        }
        for r in [1u64, 255, 256, 65535, 65536, 4294967295] {
            // large counts are only parsed and round-tripped, never compiled (the assembler unrolls)
            sized.push(format!("{}begin repeat.{} push.1 drop end end", if r > 300 { "# nocompile\n" } else { "" }, r));
        }
        em.stat("size_boundary_sources", sized.len());
        for src in sized.iter() {
            // compile only the small ones (repeat.4294967295 would unroll forever)
            check_prog(em, src, &mut ok_rt, &mut parse_err);
        }
    }
    let n = if thorough { 3000 } else { 250 };
    for _ in 0..n {
        let src = gen_program_source(&mut rng, &instrs);
        check_prog(em, &src, &mut ok_rt, &mut parse_err);
    }
    em.stat("program_ast_roundtrips", ok_rt);
    em.stat("sources_rejected_by_parser", parse_err);
    em.stat("instruction_mnemonics", variants_seen.len());

    // modules
    let mut mod_ok = 0u64;
    for _ in 0..(if thorough { 1500 } else { 120 }) {
        let src = gen_module_source(&mut rng, &instrs);
        let ast = match catch_unwind(AssertUnwindSafe(|| ModuleAst::parse(&src))) {
            Ok(Ok(a)) => a,
            Ok(Err(_)) => continue,
            Err(_) => {
                em.oracle_failures.push(format!("C10 module parser panicked on `{}`", &src[..src.len().min(200)]));
                continue;
            }
        };
        for imports in [true, false] {
            let bytes = ast.to_bytes(AstSerdeOptions::new(imports));
            match catch_unwind(AssertUnwindSafe(|| ModuleAst::from_bytes(&bytes))) {
                Ok(Ok(back)) => {
                    let mut expect = ast.clone();
                    expect.clear_locations();
                    if !imports {
                        expect.clear_imports();
                    }
                    if back != expect {
                        em.oracle_failures.push(format!("C10 ModuleAst changed by the round trip (imports={}) :: `{}`", imports, &src[..src.len().min(300)]));
                    } else {
                        mod_ok += 1;
                    }
                    if imports {
                        let mut loc = Vec::new();
                        ast.write_source_locations(&mut loc);
                        let mut b3 = back.clone();
                        if b3.load_source_locations(&mut SliceReader::new(&loc)).is_err() || b3 != ast {
                            em.oracle_failures.push(format!("C10 ModuleAst with reloaded source locations differs :: `{}`", &src[..src.len().min(300)]));
                        }
                    }
                }
                Ok(Err(e)) => em.oracle_failures.push(format!("C10 ModuleAst does not deserialise: {:?} :: `{}`", e, &src[..src.len().min(300)])),
                Err(_) => em.oracle_failures.push(format!("C10 ModuleAst::from_bytes panicked :: `{}`", &src[..src.len().min(300)])),
            }
        }
    }
    em.stat("module_ast_roundtrips", mod_ok);

    // compiled library (the whole standard library)
    {
        let masl_owned: MaslLibrary = stdlib::StdLibrary::default().into();
        let masl = &masl_owned;
        let bytes = masl.to_bytes();
        match catch_unwind(AssertUnwindSafe(|| MaslLibrary::read_from_bytes(&bytes))) {
            Ok(Ok(back)) => {
                let mut expect = masl.clone();
                expect.clear_locations();
                if back != expect && back != *masl {
                    em.oracle_failures.push("C10 MaslLibrary (stdlib) changed by the round trip".into());
                }
                if back.modules().count() != masl.modules().count() {
                    em.oracle_failures.push("C10 MaslLibrary module count changed".into());
                }
            }
            _ => em.oracle_failures.push("C10 MaslLibrary (stdlib) does not deserialise".into()),
        }
        em.stat("masl_bytes", bytes.len());
    }

    // plain data types, also compared byte for byte with the Lean encoders
    for _ in 0..(if thorough { 3000 } else { 300 }) {
        let n = rng.below(24) as usize;
        let vals: Vec<u64> = (0..n).map(|_| rng.felt()).collect();
        let si = StackInputs::try_from_values(vals.clone()).unwrap();
        let bytes = si.to_bytes();
        let internal: Vec<u64> = si.values().iter().map(|f| vm_core::StarkField::as_int(f)).collect();
        em.emit(format!("enc stackinputs {}", if internal.is_empty() { "-".into() } else { join_u64(internal.clone()) }), format!("bytes {}", hex(&bytes)));
        em.emit(format!("dec stackinputs {}", hex(&bytes)), format!("ok {}", if internal.is_empty() { "-".to_string() } else { join_u64(internal.clone()) }));
        match StackInputs::read_from_bytes(&bytes) {
            Ok(b) if b.values() == si.values() => {}
            _ => em.oracle_failures.push(format!("C10 StackInputs round trip failed for {:?}", vals)),
        }
        // outputs
        let depth = 16 + if rng.chance(1, 2) { rng.below(12) as usize } else { 0 };
        let st: Vec<u64> = (0..depth).map(|_| rng.felt()).collect();
        let addrs: Vec<u64> = if depth > 16 { (0..depth - 15).map(|_| rng.felt()).collect() } else { vec![] };
        let so = StackOutputs::new(st.clone(), addrs.clone()).unwrap();
        let bytes = so.to_bytes();
        em.emit(format!("enc stackoutputs {} {}", join_u64(st.clone()), if addrs.is_empty() { "-".into() } else { join_u64(addrs.clone()) }), format!("bytes {}", hex(&bytes)));
        em.emit(format!("dec stackoutputs {}", hex(&bytes)), format!("ok {} {}", join_u64(st.clone()), if addrs.is_empty() { "-".to_string() } else { join_u64(addrs.clone()) }));
        match StackOutputs::read_from_bytes(&bytes) {
            Ok(b) if b == so => {}
            _ => em.oracle_failures.push(format!("C10 StackOutputs round trip failed for {:?}/{:?}", st, addrs)),
        }
    }
    // kernels / program info through real assembled programs
    for k in [None, Some("export.k1 push.1 drop end\n"), Some("export.k1 push.1 drop end\nexport.k2 push.2 drop end\nexport.k3 add end\n")] {
        let src = "begin push.1 end";
        if let Ok(p) = assemble(k, src, false) {
            let info = ProgramInfo::from(p.clone());
            let b = info.to_bytes();
            match ProgramInfo::read_from_bytes(&b) {
                Ok(i2) if i2.program_hash() == info.program_hash() && i2.kernel_procedures() == info.kernel_procedures() => {}
                _ => em.oracle_failures.push("C10 ProgramInfo round trip failed".into()),
            }
            let kb = p.kernel().to_bytes();
            match Kernel::read_from_bytes(&kb) {
                Ok(k2) if k2.proc_hashes() == p.kernel().proc_hashes() => {}
                _ => em.oracle_failures.push("C10 Kernel round trip failed".into()),
            }
        }
    }
}

// ================================================================================================
// C19
// ================================================================================================

fn try_decoder<T, F: Fn(&[u8]) -> Result<T, String>, G: Fn(&T) -> Vec<u8>, E: Fn(&T, &T) -> bool>(
    em: &mut Emitter,
    name: &str,
    bytes: &[u8],
    dec: F,
    enc: G,
    same: E,
    counters: &mut [u64; 3],
) {
    match catch_unwind(AssertUnwindSafe(|| dec(bytes))) {
        Err(_) => {
            counters[2] += 1;
            em.oracle_failures.push(format!("C19 {} decoder PANICKED on {} bytes: {}", name, bytes.len(), hex(&bytes[..bytes.len().min(4096)])));
        }
        Ok(Err(_)) => counters[1] += 1,
        Ok(Ok(v)) => {
            counters[0] += 1;
            // accepted values re-encode to bytes that decode again and re-encode identically
            let re = match catch_unwind(AssertUnwindSafe(|| enc(&v))) {
                Ok(b) => b,
                Err(_) => {
                    em.oracle_failures.push(format!("C19 {}: re-encoding an accepted value PANICKED, input {}", name, hex(&bytes[..bytes.len().min(48)])));
                    return;
                }
            };
            match catch_unwind(AssertUnwindSafe(|| dec(&re))) {
                Ok(Ok(v2)) => {
                    if !same(&v, &v2) {
                        em.oracle_failures.push(format!("C19 {}: accepted value re-encodes to bytes which decode to a different value, input {}", name, hex(&bytes[..bytes.len().min(4096)])));
                    }
                    if enc(&v2) != re {
                        em.oracle_failures.push(format!("C19 {}: accepted value does not re-encode stably, input {}", name, hex(&bytes[..bytes.len().min(48)])));
                    }
                }
                _ => em.oracle_failures.push(format!("C19 {}: re-encoded accepted value is rejected, input {}", name, hex(&bytes[..bytes.len().min(48)]))),
            }
        }
    }
}

fn mutate(rng: &mut Rng, base: &[u8]) -> Vec<u8> {
    let mut b = base.to_vec();
    if b.is_empty() {
        return vec![rng.below(256) as u8];
    }
    match rng.below(8) {
        0 => {
            let i = rng.below(b.len() as u64) as usize;
            b[i] ^= 1 << rng.below(8);
        }
        1 => b.truncate(rng.below(b.len() as u64) as usize),
        2 => {
            let i = rng.below(b.len() as u64) as usize;
            b[i] = *rng.pick(&[0u8, 1, 0x7f, 0x80, 0xfe, 0xff]);
        }
        3 => {
            // length-field style: overwrite 2/4 bytes with boundary values
            let i = rng.below(b.len() as u64) as usize;
            for j in 0..4 {
                if i + j < b.len() {
                    b[i + j] = if rng.chance(1, 2) { 0xff } else { 0 };
                }
            }
        }
        4 => {
            let i = rng.below(b.len() as u64) as usize;
            b[i] = rng.below(256) as u8; // opcode sweep
        }
        5 => b.extend((0..rng.below(9)).map(|_| rng.below(256) as u8)),
        6 => {
            let i = rng.below(b.len() as u64) as usize;
            let j = rng.below(b.len() as u64) as usize;
            b.swap(i, j);
        }
        _ => {
            for _ in 0..3 {
                let i = rng.below(b.len() as u64) as usize;
                b[i] ^= 1 << rng.below(8);
            }
        }
    }
    b
}

pub fn generate_c19(em: &mut Emitter, seed: u64, thorough: bool) {
    let mut rng = Rng::new(seed ^ 0xC19);
    let instrs = extra_instrs();
    let n = if thorough { 40000 } else { 3000 };
    // valid seeds
    let mut prog_seeds: Vec<Vec<u8>> = Vec::new();
    let mut mod_seeds: Vec<Vec<u8>> = Vec::new();
    for _ in 0..40 {
        if let Ok(a) = ProgramAst::parse(&gen_program_source(&mut rng, &instrs)) {
            prog_seeds.push(a.to_bytes(AstSerdeOptions::new(true)));
        }
        if let Ok(a) = ModuleAst::parse(&gen_module_source(&mut rng, &instrs)) {
            mod_seeds.push(a.to_bytes(AstSerdeOptions::new(true)));
        }
    }
    // a small library keeps the mutation loop fast
    let small_lib = {
        let m = ModuleAst::parse("export.foo push.1 add end\nexport.bar.2 loc_load.0 mul.3 end\n").unwrap();
        let ns = assembly::LibraryNamespace::new("tst").unwrap();
        let path = assembly::LibraryPath::new("tst::m").unwrap();
        MaslLibrary::new(ns, assembly::Version::default(), false, vec![assembly::Module::new(path, m)], vec![]).unwrap()
    };
    let masl_seed = small_lib.to_bytes();
    let info_seed = {
        let p = assemble(Some("export.k1 push.1 drop end\nexport.k2 add end\n"), "begin push.1 end", false).unwrap();
        (ProgramInfo::from(p.clone()).to_bytes(), p.kernel().to_bytes())
    };
    let si_seed = StackInputs::try_from_values(vec![1, 2, 3, P - 1]).unwrap().to_bytes();
    let so_seed = StackOutputs::new((1..=18).collect(), vec![0, 5, 6]).unwrap().to_bytes();
    let proof_seed = {
        let p = assemble(None, "begin push.1 push.2 add end", false).unwrap();
        crate::c01::prove_one(&p, &[], &[], air::ProvingOptions::default()).map(|x| x.2.to_bytes()).unwrap_or_default()
    };
    let mut counters: std::collections::BTreeMap<&str, [u64; 3]> = Default::default();
    for i in 0..n {
        let pick = |rng: &mut Rng, seeds: &Vec<Vec<u8>>| -> Vec<u8> {
            if seeds.is_empty() || rng.chance(1, 10) {
                (0..rng.below(64)).map(|_| rng.below(256) as u8).collect()
            } else {
                let base = rng.pick(seeds).clone();
                mutate(rng, &base)
            }
        };
        let b = pick(&mut rng, &prog_seeds);
        try_decoder(em, "ProgramAst", &b, |x| ProgramAst::from_bytes(x).map_err(|e| format!("{:?}", e)), |a| a.to_bytes(AstSerdeOptions::new(true)), |a, b| a == b, counters.entry("ProgramAst").or_default());
        let b = pick(&mut rng, &mod_seeds);
        try_decoder(em, "ModuleAst", &b, |x| ModuleAst::from_bytes(x).map_err(|e| format!("{:?}", e)), |a| a.to_bytes(AstSerdeOptions::new(true)), |a, b| a == b, counters.entry("ModuleAst").or_default());
        if i % 4 == 0 {
            let b = pick(&mut rng, &vec![masl_seed.clone()]);
            try_decoder(em, "MaslLibrary", &b, |x| MaslLibrary::read_from_bytes(x).map_err(|e| format!("{:?}", e)), |a| a.to_bytes(), |a, b| a == b, counters.entry("MaslLibrary").or_default());
        }
        let b = pick(&mut rng, &vec![info_seed.0.clone()]);
        try_decoder(em, "ProgramInfo", &b, |x| ProgramInfo::read_from_bytes(x).map_err(|e| format!("{:?}", e)), |a| a.to_bytes(), |a, b| a.program_hash() == b.program_hash() && a.kernel_procedures() == b.kernel_procedures(), counters.entry("ProgramInfo").or_default());
        let b = pick(&mut rng, &vec![info_seed.1.clone()]);
        try_decoder(em, "Kernel", &b, |x| Kernel::read_from_bytes(x).map_err(|e| format!("{:?}", e)), |a| a.to_bytes(), |a, b| a.proc_hashes() == b.proc_hashes(), counters.entry("Kernel").or_default());
        let b = pick(&mut rng, &vec![si_seed.clone()]);
        try_decoder(em, "StackInputs", &b, |x| StackInputs::read_from_bytes(x).map_err(|e| format!("{:?}", e)), |a| a.to_bytes(), |a, b| a.values() == b.values(), counters.entry("StackInputs").or_default());
        // the Lean decoder must agree on accept/reject and on the value
        let ans = match StackInputs::read_from_bytes(&b) {
            Ok(v) => format!("ok {}", if v.values().is_empty() { "-".to_string() } else { join_u64(v.values().iter().map(|f| vm_core::StarkField::as_int(f))) }),
            Err(_) => "reject".to_string(),
        };
        em.emit(format!("dec stackinputs {}", if b.is_empty() { "-".to_string() } else { hex(&b) }), ans);
        let b = pick(&mut rng, &vec![so_seed.clone()]);
        try_decoder(em, "StackOutputs", &b, |x| StackOutputs::read_from_bytes(x).map_err(|e| format!("{:?}", e)), |a| a.to_bytes(), |a, b| a == b, counters.entry("StackOutputs").or_default());
        let ans = match StackOutputs::read_from_bytes(&b) {
            Ok(v) => format!("ok {} {}", join_u64(v.stack().iter().copied()), if v.overflow_addrs().is_empty() { "-".to_string() } else { join_u64(v.overflow_addrs().iter().copied()) }),
            Err(_) => "reject".to_string(),
        };
        em.emit(format!("dec stackoutputs {}", if b.is_empty() { "-".to_string() } else { hex(&b) }), ans);
        if i % 8 == 0 && !proof_seed.is_empty() {
            // keep away from the context header (known winterfell panics are C02's finding)
            let mut b = proof_seed.clone();
            let k = 64 + rng.below((b.len() - 64) as u64) as usize;
            match rng.below(3) {
                0 => b[k] ^= 1 << rng.below(8),
                1 => b.truncate(k),
                _ => b[0] = rng.below(6) as u8,
            }
            try_decoder(em, "ExecutionProof", &b, |x| air::ExecutionProof::from_bytes(x).map_err(|e| format!("{:?}", e)), |a| a.to_bytes(), |a, b| a.to_bytes() == b.to_bytes(), counters.entry("ExecutionProof").or_default());
        }
    }
    for (k, c) in counters {
        em.stat(&format!("{}_accepted/rejected/panicked", k), format!("{}/{}/{}", c[0], c[1], c[2]));
    }
    // integers that are not canonical field elements must be rejected by the constructors
    for v in [P, P + 1, u64::MAX, u64::MAX - 1] {
        if StackInputs::try_from_values(vec![1, v]).is_ok() {
            em.oracle_failures.push(format!("C19 StackInputs::try_from_values accepted non-canonical {}", v));
        }
        if processor::AdviceInputs::default().with_stack_values(vec![v]).is_ok() {
            em.oracle_failures.push(format!("C19 AdviceInputs::with_stack_values accepted non-canonical {}", v));
        }
        if StackOutputs::new(vec![v; 16], vec![]).is_ok() {
            em.oracle_failures.push(format!("C19 StackOutputs::new accepted non-canonical stack element {}", v));
        }
        if StackOutputs::new((0..17).collect(), vec![0, v]).is_ok() {
            em.oracle_failures.push(format!("C19 StackOutputs::new accepted non-canonical overflow address {}", v));
        }
    }
    for v in [0u64, 1, P - 1] {
        if StackInputs::try_from_values(vec![v]).is_err() || StackOutputs::new(vec![v; 16], vec![]).is_err() {
            em.oracle_failures.push(format!("C19 canonical value {} rejected", v));
        }
    }
    if StackOutputs::new((0..17).collect(), vec![]).is_ok() || StackOutputs::new((0..16).collect(), vec![1]).is_ok() {
        em.oracle_failures.push("C19 StackOutputs::new accepted a wrong number of overflow addresses".into());
    }
}
