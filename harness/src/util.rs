//! Shared helpers: PRNG, rendering of operations / MAST / requests in the line protocol,
//! a logging (and optionally lying) host, canonicalisation of results and errors.
#![allow(dead_code)]
use std::collections::BTreeSet;
use std::panic::{catch_unwind, AssertUnwindSafe};

use processor::{
    crypto::MerklePath, AdviceExtractor, AdviceInjector, ExecutionError, ExecutionOptions, Host,
    HostResponse, Process, ProcessState,
};
use vm_core::{
    code_blocks::CodeBlock, crypto::hash::RpoDigest, Felt, Kernel, Operation, Program,
    StackInputs, StarkField, Word,
};

// PRNG ------------------------------------------------------------------------------------------

pub const P: u64 = 0xFFFF_FFFF_0000_0001;

#[derive(Clone)]
pub struct Rng(pub u64);
impl Rng {
    pub fn new(seed: u64) -> Self {
        Rng(seed.wrapping_mul(0x9E37_79B9_7F4A_7C15) ^ 0xD1B5_4A32_D192_ED03)
    }
    pub fn next(&mut self) -> u64 {
        self.0 = self.0.wrapping_add(0x9E37_79B9_7F4A_7C15);
        let mut z = self.0;
        z = (z ^ (z >> 30)).wrapping_mul(0xBF58_476D_1CE4_E5B9);
        z = (z ^ (z >> 27)).wrapping_mul(0x94D0_49BB_1331_11EB);
        z ^ (z >> 31)
    }
    pub fn below(&mut self, n: u64) -> u64 {
        if n == 0 {
            0
        } else {
            self.next() % n
        }
    }
    pub fn chance(&mut self, num: u64, den: u64) -> bool {
        self.below(den) < num
    }
    pub fn pick<'a, T>(&mut self, xs: &'a [T]) -> &'a T {
        &xs[self.below(xs.len() as u64) as usize]
    }
    /// A field element biased towards the boundary values named in the properties.
    pub fn felt(&mut self) -> u64 {
        const B: [u64; 16] = [
            0, 1, 2, 3, 65535, 65536, 1 << 31, (1 << 32) - 1, 1 << 32, (1 << 32) + 1, 1 << 63,
            P - 1, P - 2, (1 << 16) - 1, (1u64 << 48) + 5, 0xFFFF_FFFE_FFFF_FFFF,
        ];
        match self.below(10) {
            0..=4 => B[self.below(16) as usize],
            5..=6 => self.below(1 << 32),
            _ => self.next() % P,
        }
    }
    pub fn u32ish(&mut self) -> u64 {
        const B: [u64; 8] = [0, 1, 2, 65535, 65536, 1 << 31, (1 << 32) - 1, (1 << 32) - 2];
        if self.chance(1, 2) {
            B[self.below(8) as usize]
        } else {
            self.below(1 << 32)
        }
    }
}

// RENDERING -------------------------------------------------------------------------------------

pub fn op_token(op: &Operation) -> String {
    match op {
        Operation::Push(v) => format!("push:{}", v.as_int()),
        Operation::Assert(c) => format!("assert:{}", c),
        Operation::U32assert2(c) => format!("u32assert2:{}", c.as_int()),
        other => format!("{:?}", other).to_lowercase(),
    }
}

pub fn join_u64(v: impl IntoIterator<Item = u64>) -> String {
    v.into_iter().map(|x| x.to_string()).collect::<Vec<_>>().join(",")
}

pub fn word_str(w: &[Felt]) -> String {
    join_u64(w.iter().map(|f| f.as_int()))
}

pub fn digest_str(d: &RpoDigest) -> String {
    word_str(d.as_elements())
}

pub fn block_ops(block: &CodeBlock) -> Vec<Operation> {
    match block {
        CodeBlock::Span(s) => s.op_batches().iter().flat_map(|b| b.ops().iter().copied()).collect(),
        _ => vec![],
    }
}

pub fn render_block(block: &CodeBlock, out: &mut String) {
    match block {
        CodeBlock::Span(_) => {
            out.push_str("span( ");
            for op in block_ops(block) {
                out.push_str(&op_token(&op));
                out.push(' ');
            }
            out.push_str(") ");
        }
        CodeBlock::Join(j) => {
            out.push_str("join( ");
            render_block(j.first(), out);
            render_block(j.second(), out);
            out.push_str(") ");
        }
        CodeBlock::Split(s) => {
            out.push_str("split( ");
            render_block(s.on_true(), out);
            render_block(s.on_false(), out);
            out.push_str(") ");
        }
        CodeBlock::Loop(l) => {
            out.push_str("loop( ");
            render_block(l.body(), out);
            out.push_str(") ");
        }
        CodeBlock::Call(c) => {
            out.push_str(if c.is_syscall() { "syscall:" } else { "call:" });
            out.push_str(&digest_str(&c.fn_hash()));
            out.push(' ');
        }
        CodeBlock::Dyn(_) => out.push_str("dyn "),
        CodeBlock::Proxy(p) => {
            out.push_str("proxy:");
            out.push_str(&digest_str(&p.hash()));
            out.push(' ');
        }
    }
}

/// Collects every code-block-table entry reachable from `root`: call/syscall targets and every
/// four consecutive pushes that happen to name a table entry (procref'd dyn targets).
pub fn reachable_table(program: &Program) -> Vec<(RpoDigest, CodeBlock)> {
    let mut seen: BTreeSet<[u8; 32]> = BTreeSet::new();
    let mut out = Vec::new();
    let mut todo: Vec<CodeBlock> = vec![program.root().clone()];
    while let Some(b) = todo.pop() {
        let mut cands: Vec<RpoDigest> = Vec::new();
        match &b {
            CodeBlock::Span(_) => {
                let ops = block_ops(&b);
                let pushes: Vec<Option<Felt>> = ops
                    .iter()
                    .map(|o| if let Operation::Push(v) = o { Some(*v) } else { None })
                    .collect();
                for i in 0..pushes.len().saturating_sub(3) {
                    if let (Some(a), Some(b2), Some(c), Some(d)) =
                        (pushes[i], pushes[i + 1], pushes[i + 2], pushes[i + 3])
                    {
                        // procref pushes the hash so that the top of the stack holds element 0
                        cands.push(RpoDigest::new([d, c, b2, a]));
                        cands.push(RpoDigest::new([a, b2, c, d]));
                    }
                }
            }
            CodeBlock::Join(j) => {
                todo.push(j.first().clone());
                todo.push(j.second().clone());
            }
            CodeBlock::Split(s) => {
                todo.push(s.on_true().clone());
                todo.push(s.on_false().clone());
            }
            CodeBlock::Loop(l) => todo.push(l.body().clone()),
            CodeBlock::Call(c) => cands.push(c.fn_hash()),
            CodeBlock::Dyn(_) | CodeBlock::Proxy(_) => {}
        }
        for h in cands {
            if let Some(t) = program.cb_table().get(h) {
                if seen.insert(h.into()) {
                    out.push((h, t.clone()));
                    todo.push(t.clone());
                }
            }
        }
    }
    out
}

/// Everything the model needs to replay a run: produced while the implementation executes.
#[derive(Default, Clone)]
pub struct Tape {
    pub adv: Vec<u64>,
    pub paths: Vec<Vec<Word>>,
}

pub struct ExecReq<'a> {
    pub program: &'a Program,
    pub stack: Vec<u64>, // top first
    pub max_cycles: Option<u32>,
    pub out: &'a str,
}

pub fn render_exec_request(req: &ExecReq, tape: &Tape) -> String {
    let mut s = String::from("exec ");
    if let Some(m) = req.max_cycles {
        s.push_str(&format!("MAX {} ", m));
    }
    s.push_str(&format!("FUEL {} ", 4_000_000u64));
    if !req.stack.is_empty() {
        s.push_str(&format!("STACK {} ", join_u64(req.stack.iter().copied())));
    } else {
        s.push_str("STACK 0 ");
    }
    if !tape.adv.is_empty() {
        s.push_str(&format!("ADV {} ", join_u64(tape.adv.iter().copied())));
    }
    for p in &tape.paths {
        if p.is_empty() {
            s.push_str("PATH - ");
        } else {
            s.push_str("PATH ");
            s.push_str(&p.iter().map(|w| word_str(w)).collect::<Vec<_>>().join(";"));
            s.push(' ');
        }
    }
    for h in req.program.kernel().proc_hashes() {
        s.push_str(&format!("KERNEL {} ", digest_str(h)));
    }
    s.push_str(&format!("DYNHASH {} ", digest_str(&vm_core::code_blocks::Dyn::dyn_hash())));
    if !req.out.is_empty() {
        s.push_str(&format!("OUT {} ", req.out));
    }
    for (h, b) in reachable_table(req.program) {
        s.push_str(&format!("CB {} ", digest_str(&h)));
        render_block(&b, &mut s);
    }
    s.push_str("PROG ");
    render_block(req.program.root(), &mut s);
    s.trim_end().to_string()
}

// HOSTS -----------------------------------------------------------------------------------------

/// What a lying host does to the answers of the honest host it wraps.
#[derive(Clone, Debug, Default)]
pub struct Lies {
    /// (k, v): the k-th element handed out by advice-stack pops is replaced by v.
    pub adv_override: Vec<(usize, u64)>,
    /// (k, path): the k-th Merkle path handed out is replaced.
    pub path_override: Vec<(usize, Vec<Word>)>,
}

pub struct LogHost<H: Host> {
    pub inner: H,
    pub tape: Tape,
    pub lies: Lies,
    pub quiet: bool,
    /// an advice injector / decorator (host side, outside the VM semantics) returned an error
    pub decorator_failed: bool,
}

impl<H: Host> LogHost<H> {
    pub fn new(inner: H) -> Self {
        Self { inner, tape: Tape::default(), lies: Lies::default(), quiet: true, decorator_failed: false }
    }
    fn lie_elem(&self, k: usize, v: Felt) -> Felt {
        for (i, x) in &self.lies.adv_override {
            if *i == k {
                return Felt::new(*x);
            }
        }
        v
    }
}

impl<H: Host> Host for LogHost<H> {
    fn get_advice<S: ProcessState>(
        &mut self,
        process: &S,
        extractor: AdviceExtractor,
    ) -> Result<HostResponse, ExecutionError> {
        let r = self.inner.get_advice(process, extractor)?;
        Ok(match r {
            HostResponse::Element(v) => {
                let v = self.lie_elem(self.tape.adv.len(), v);
                self.tape.adv.push(v.as_int());
                HostResponse::Element(v)
            }
            HostResponse::Word(mut w) => {
                for i in 0..4 {
                    w[i] = self.lie_elem(self.tape.adv.len(), w[i]);
                    self.tape.adv.push(w[i].as_int());
                }
                HostResponse::Word(w)
            }
            HostResponse::DoubleWord(mut ws) => {
                for j in 0..2 {
                    for i in 0..4 {
                        ws[j][i] = self.lie_elem(self.tape.adv.len(), ws[j][i]);
                        self.tape.adv.push(ws[j][i].as_int());
                    }
                }
                HostResponse::DoubleWord(ws)
            }
            HostResponse::MerklePath(p) => HostResponse::MerklePath(self.log_path(p)),
            HostResponse::None => HostResponse::None,
        })
    }

    fn set_advice<S: ProcessState>(
        &mut self,
        process: &S,
        injector: AdviceInjector,
    ) -> Result<HostResponse, ExecutionError> {
        let r = match self.inner.set_advice(process, injector) {
            Ok(r) => r,
            Err(e) => {
                // MRUPDATE asks for its path through set_advice: that is VM semantics, not a decorator
                if !matches!(injector, AdviceInjector::UpdateMerkleNode) {
                    self.decorator_failed = true;
                }
                return Err(e);
            }
        };
        Ok(match r {
            HostResponse::MerklePath(p) => HostResponse::MerklePath(self.log_path(p)),
            other => other,
        })
    }

    fn on_event<S: ProcessState>(&mut self, _p: &S, _id: u32) -> Result<HostResponse, ExecutionError> {
        Ok(HostResponse::None)
    }
    fn on_debug<S: ProcessState>(
        &mut self,
        _p: &S,
        _o: &vm_core::DebugOptions,
    ) -> Result<HostResponse, ExecutionError> {
        Ok(HostResponse::None)
    }
    fn on_trace<S: ProcessState>(&mut self, _p: &S, _id: u32) -> Result<HostResponse, ExecutionError> {
        Ok(HostResponse::None)
    }
}

impl<H: Host> LogHost<H> {
    fn log_path(&mut self, p: MerklePath) -> MerklePath {
        let k = self.tape.paths.len();
        let mut nodes: Vec<Word> = p.nodes().iter().map(|d| (*d).into()).collect();
        for (i, np) in &self.lies.path_override {
            if *i == k {
                nodes = np.clone();
            }
        }
        self.tape.paths.push(nodes.clone());
        MerklePath::new(nodes.into_iter().map(RpoDigest::from).collect())
    }
}

// CANONICAL RESULTS -----------------------------------------------------------------------------

pub fn canon_err(e: &ExecutionError) -> String {
    use ExecutionError::*;
    match e {
        FailedAssertion { err_code, .. } => format!("AssertFailed({})", err_code),
        DivideByZero(_) => "DivZero".into(),
        NotBinaryValue(v) => format!("NotBinary({})", v.as_int()),
        NotU32Value(v, c) => format!("NotU32({},{})", v.as_int(), c.as_int()),
        MemoryAddressOutOfBounds(a) => format!("AddrOOB({})", a),
        InvalidFmpValue(_, _) => "FmpRange".into(),
        CallerNotInSyscall => "CallerNotInSyscall".into(),
        AdviceStackReadFailed(_) => "AdviceExhausted".into(),
        MerklePathVerificationFailed { .. } => "MerklePathFailed".into(),
        MerkleStoreLookupFailed(_) | MerkleStoreUpdateFailed(_) | InvalidTreeNodeIndex { .. }
        | InvalidTreeDepth { .. } => "HostErr".into(),
        InvalidStackDepthOnReturn(d) => format!("BadDepth({})", d),
        SyscallTargetNotInKernel(_) => "NotInKernel".into(),
        CodeBlockNotFound(_) => "CodeBlockNotFound".into(),
        DynamicCodeBlockNotFound(_) => "DynBlockNotFound".into(),
        CycleLimitExceeded(m) => format!("CycleLimit({})", m),
        UnexecutableCodeBlock(_) => "Unexecutable".into(),
        other => format!("Other({:?})", std::mem::discriminant(other)),
    }
}

pub struct ImplRun {
    pub answer: String,
    pub tape: Tape,
    pub panicked: bool,
    pub ok: bool,
}

/// Canonical memory dump of all contexts that may have been touched (ctx ids are clock values,
/// so we scan the ids the caller supplies plus 0).
pub fn mem_dump<H: Host>(process: &Process<H>, ctxs: &[u32]) -> String {
    let mut items = Vec::new();
    for &c in ctxs {
        for (addr, w) in process.get_mem_state(processor::ContextId::from(c)) {
            if w.iter().any(|f| f.as_int() != 0) {
                items.push(format!("{}:{}:{}", c, addr, word_str(&w)));
            }
        }
    }
    items.join(";")
}

/// Runs the real processor on `program`, returning the canonical answer line and the host tape.
pub fn run_impl<H: Host>(
    program: &Program,
    stack: &[u64],
    host: H,
    lies: Lies,
    max_cycles: Option<u32>,
    out: &str,
) -> ImplRun {
    let mut lh = LogHost::new(host);
    lh.lies = lies;
    let mut rev: Vec<u64> = stack.to_vec();
    rev.reverse();
    let inputs = match StackInputs::try_from_values(rev) {
        Ok(i) => i,
        Err(_) => {
            return ImplRun { answer: "bad-input".into(), tape: Tape::default(), panicked: false, ok: false }
        }
    };
    let options = match max_cycles {
        Some(m) => match ExecutionOptions::new(Some(m), 64, false) {
            Ok(o) => o,
            Err(_) => {
                return ImplRun { answer: "bad-options".into(), tape: Tape::default(), panicked: false, ok: false }
            }
        },
        None => ExecutionOptions::default(),
    };
    let kernel: Kernel = program.kernel().clone();
    let want_ops = out.split(',').any(|x| x == "ops");
    let want_mem = out.split(',').any(|x| x == "mem");
    let want_sys = out.split(',').any(|x| x == "sys");
    let want_adv = out.split(',').any(|x| x == "adv");
    let res = catch_unwind(AssertUnwindSafe(|| {
        let mut process = Process::new(kernel, inputs, &mut lh, options);
        let r = process.execute(program);
        match r {
            Err(e) => (format!("err {}", canon_err(&e)), false),
            Ok(outputs) => {
                let clk = process.system.clk();
                let mut a = format!("ok clk={} stack={}", clk, join_u64(outputs.stack().iter().copied()));
                if want_sys {
                    a.push_str(&format!(
                        " fmp={} ctx={} insys={}",
                        process.system.fmp().as_int(),
                        u32::from(process.system.ctx()),
                        if process.system.in_syscall() { 1 } else { 0 }
                    ));
                }
                if want_mem {
                    // context ids are `clk + 1` of CALL rows: scan all clocks
                    let ctxs: Vec<u32> = (0..=clk).collect();
                    a.push_str(&format!(" mem={}", mem_dump(&process, &ctxs)));
                }
                (a, true)
            }
        }
    }));
    let tape = lh.tape.clone();
    if lh.decorator_failed {
        let a = match res {
            Ok((a, _)) => a,
            Err(_) => "err Panic".into(),
        };
        return ImplRun { answer: format!("skip decorator-error {}", a), tape, panicked: false, ok: false };
    }
    match res {
        Err(_) => ImplRun { answer: "err Panic".into(), tape, panicked: true, ok: false },
        Ok((mut a, ok)) => {
            if ok && want_ops {
                // op stream from the step iterator (separate run with an honest replay host)
                a.push_str(&format!(" ops={}", impl_op_stream(program, stack, &tape)));
            }
            if ok && want_adv {
                a.push_str(" advleft=0");
            }
            ImplRun { answer: a, tape, panicked: false, ok }
        }
    }
}

/// A host that replays a tape (used to re-run a program deterministically for the step iterator).
pub struct ReplayHost {
    pub tape: Tape,
    pub ai: usize,
    pub pi: usize,
}

impl Host for ReplayHost {
    fn get_advice<S: ProcessState>(
        &mut self,
        process: &S,
        extractor: AdviceExtractor,
    ) -> Result<HostResponse, ExecutionError> {
        let take = |n: usize, me: &mut Self| -> Result<Vec<Felt>, ExecutionError> {
            if me.ai + n > me.tape.adv.len() {
                return Err(ExecutionError::AdviceStackReadFailed(process.clk()));
            }
            let v = me.tape.adv[me.ai..me.ai + n].iter().map(|x| Felt::new(*x)).collect();
            me.ai += n;
            Ok(v)
        };
        match extractor {
            AdviceExtractor::PopStack => Ok(HostResponse::Element(take(1, self)?[0])),
            AdviceExtractor::PopStackWord => {
                let v = take(4, self)?;
                Ok(HostResponse::Word([v[0], v[1], v[2], v[3]]))
            }
            AdviceExtractor::PopStackDWord => {
                let v = take(8, self)?;
                Ok(HostResponse::DoubleWord([[v[0], v[1], v[2], v[3]], [v[4], v[5], v[6], v[7]]]))
            }
            AdviceExtractor::GetMerklePath => self.next_path(process.clk()),
        }
    }

    fn set_advice<S: ProcessState>(
        &mut self,
        process: &S,
        injector: AdviceInjector,
    ) -> Result<HostResponse, ExecutionError> {
        match injector {
            AdviceInjector::UpdateMerkleNode => self.next_path(process.clk()),
            _ => Ok(HostResponse::None),
        }
    }
    fn on_event<S: ProcessState>(&mut self, _p: &S, _id: u32) -> Result<HostResponse, ExecutionError> {
        Ok(HostResponse::None)
    }
    fn on_debug<S: ProcessState>(
        &mut self,
        _p: &S,
        _o: &vm_core::DebugOptions,
    ) -> Result<HostResponse, ExecutionError> {
        Ok(HostResponse::None)
    }
    fn on_trace<S: ProcessState>(&mut self, _p: &S, _id: u32) -> Result<HostResponse, ExecutionError> {
        Ok(HostResponse::None)
    }
}

impl ReplayHost {
    pub fn new(tape: Tape) -> Self {
        Self { tape, ai: 0, pi: 0 }
    }
    fn next_path(&mut self, clk: u32) -> Result<HostResponse, ExecutionError> {
        if self.pi >= self.tape.paths.len() {
            return Err(ExecutionError::AdviceStackReadFailed(clk));
        }
        let p = self.tape.paths[self.pi].clone();
        self.pi += 1;
        Ok(HostResponse::MerklePath(MerklePath::new(p.into_iter().map(RpoDigest::from).collect())))
    }
}

pub fn impl_op_stream(program: &Program, stack: &[u64], tape: &Tape) -> String {
    let mut rev: Vec<u64> = stack.to_vec();
    rev.reverse();
    let inputs = StackInputs::try_from_values(rev).unwrap();
    let it = processor::execute_iter(program, inputs, ReplayHost::new(tape.clone()));
    let mut codes = Vec::new();
    for st in it {
        match st {
            Ok(s) => {
                if let Some(op) = s.op {
                    codes.push(op.op_code() as u64);
                }
            }
            Err(_) => break,
        }
    }
    join_u64(codes)
}

pub fn felt_modulus_check() {
    assert_eq!(Felt::MODULUS, P);
}
