//! C08 — batching, MAST hashing, decorator/whitespace invariance, hash sensitivity.
use crate::progs::*;
use crate::util::*;
use crate::Emitter;
use assembly::Assembler;
use vm_core::{code_blocks::CodeBlock, Felt, Operation, StarkField};

fn batch_case(em: &mut Emitter, ops: Vec<Operation>) {
    let toks: Vec<String> = ops.iter().map(op_token).collect();
    let req = format!("batch {}", toks.join(" "));
    let block = CodeBlock::new_span(ops);
    let span = match &block {
        CodeBlock::Span(s) => s,
        _ => unreachable!(),
    };
    let mut parts = Vec::new();
    for b in span.op_batches() {
        parts.push(format!(
            "[{}|{}|{}|{}]",
            b.ops().iter().map(op_token).collect::<Vec<_>>().join(" "),
            join_u64(b.groups().iter().map(|g| g.as_int())),
            join_u64(b.op_counts().iter().map(|c| *c as u64)),
            b.num_groups()
        ));
    }
    let gc = vm_core::code_blocks::get_span_op_group_count(span.op_batches());
    let ans = format!("batches {} gc={} hash={}", parts.join(" "), gc, digest_str(&block.hash()));
    em.emit(req, ans);
}

fn random_block(rng: &mut Rng, depth: u32) -> CodeBlock {
    let k = if depth == 0 { 0 } else { rng.below(7) };
    match k {
        0 | 6 => {
            let hi = if rng.chance(1, 6) { 160 } else { 12 };
            let n = 1 + rng.below(hi) as usize;
            let pct = *rng.pick(&[0u64, 10, 50, 90]);
            CodeBlock::new_span((0..n).map(|_| random_op(rng, pct)).collect())
        }
        1 => CodeBlock::new_join([random_block(rng, depth - 1), random_block(rng, depth - 1)]),
        2 => CodeBlock::new_split(random_block(rng, depth - 1), random_block(rng, depth - 1)),
        3 => CodeBlock::new_loop(random_block(rng, depth - 1)),
        4 => {
            let h = random_block(rng, 1).hash();
            if rng.chance(1, 2) {
                CodeBlock::new_call(h)
            } else {
                CodeBlock::new_syscall(h)
            }
        }
        _ => {
            if rng.chance(1, 2) {
                CodeBlock::new_dyn()
            } else {
                CodeBlock::new_dyncall()
            }
        }
    }
}

pub fn generate(em: &mut Emitter, seed: u64, thorough: bool) {
    let mut rng = Rng::new(seed ^ 0xC08);
    // (1) exhaustive push / non-push patterns up to length L, non-push op = ADD, plus the same
    //     patterns with a random non-push op mix
    let l = if thorough { 16 } else { 11 };
    let mut n_exh = 0u64;
    for len in 1..=l {
        for mask in 0u32..(1u32 << len) {
            let ops: Vec<Operation> = (0..len)
                .map(|i| {
                    if mask >> i & 1 == 1 {
                        Operation::Push(Felt::new(1000 + i as u64))
                    } else {
                        Operation::Add
                    }
                })
                .collect();
            batch_case(em, ops);
            n_exh += 1;
        }
    }
    // (1b) exhaustive patterns over {PUSH, ADD, NOOP}: explicit NOOPs inside and at the end of groups
    //      (a group made of NOOPs only, a NOOP after a trailing PUSH, NOOP-only spans)
    let l3 = if thorough { 10 } else { 8 };
    for len in 1..=l3 {
        for code in 0..3u32.pow(len as u32) {
            let mut c = code;
            let ops: Vec<Operation> = (0..len)
                .map(|i| {
                    let d = c % 3;
                    c /= 3;
                    match d {
                        0 => Operation::Add,
                        1 => Operation::Noop,
                        _ => Operation::Push(Felt::new(2000 + i as u64)),
                    }
                })
                .collect();
            batch_case(em, ops);
            n_exh += 1;
        }
    }
    // NOOP tails after k operations around the group / batch boundaries
    for k in [0usize, 1, 7, 8, 9, 10, 17, 18, 26, 27, 62, 63, 64, 70, 71, 72, 73] {
        for tail in 1..=(if thorough { 20 } else { 11 }) {
            for with_push in [false, true] {
                let mut ops: Vec<Operation> = (0..k).map(|i| if with_push && i + 1 == k { Operation::Push(Felt::new(7)) } else { Operation::Swap }).collect();
                ops.extend(std::iter::repeat(Operation::Noop).take(tail));
                if !ops.is_empty() {
                    batch_case(em, ops);
                    n_exh += 1;
                }
            }
        }
    }
    em.stat("exhaustive_push_patterns_up_to_len", l);
    em.stat("exhaustive_cases", n_exh);
    // (2) long patterns around the batch boundaries: spans of k ops with pushes at the
    //     positions where a group or batch fills up
    let mut n_b = 0u64;
    for base in [8usize, 9, 10, 63, 64, 70, 71, 72, 73, 74, 80, 81, 143, 144, 145] {
        for push_at in 0..base.min(if thorough { 200 } else { 90 }) {
            let ops: Vec<Operation> = (0..base)
                .map(|i| {
                    if i == push_at || (i + 1 == push_at && base % 2 == 0) {
                        Operation::Push(Felt::new(rng.felt()))
                    } else {
                        Operation::Swap
                    }
                })
                .collect();
            batch_case(em, ops);
            n_b += 1;
        }
    }
    em.stat("boundary_cases", n_b);
    // (3) random op sequences
    let n_rand = if thorough { 6000 } else { 700 };
    let mut lens = Vec::new();
    for _ in 0..n_rand {
        let n = match rng.below(10) {
            0 => 1 + rng.below(3),
            1..=5 => 1 + rng.below(40),
            6..=8 => 60 + rng.below(30),
            _ => 100 + rng.below(200),
        } as usize;
        let pct = *rng.pick(&[0u64, 5, 20, 50, 80, 100]);
        let ops: Vec<Operation> = (0..n).map(|_| random_op(&mut rng, pct)).collect();
        lens.push(n);
        batch_case(em, ops);
    }
    em.stat("random_cases", n_rand);
    em.stat("random_len_max", lens.iter().max().unwrap());
    // (4) MAST hashes of random trees
    let n_tree = if thorough { 1500 } else { 150 };
    for _ in 0..n_tree {
        let b = random_block(&mut rng, 4);
        let mut s = String::from("masthash ");
        render_block(&b, &mut s);
        // dyncall is `call:<dynhash>` in the protocol
        em.emit(s.trim_end().to_string(), format!("digest {}", digest_str(&b.hash())));
    }
    em.stat("mast_trees", n_tree);
    // (5) assembler-level invariance and sensitivity (implementation vs. metamorphic oracle)
    invariance(em, &mut rng, if thorough { 400 } else { 60 });
}

fn compile(src: &str, debug: bool) -> Result<vm_core::Program, String> {
    let a = Assembler::default()
        .with_debug_mode(debug)
        .with_library(&stdlib::StdLibrary::default())
        .map_err(|e| format!("{:?}", e))?;
    a.compile(src).map_err(|e| format!("{:?}", e))
}

/// Same program text modulo comments / whitespace / procedure names / debug mode / decorators
/// must give the same root; changing one operation or immediate must change it.
fn invariance(em: &mut Emitter, rng: &mut Rng, n: usize) {
    let decorators =
        ["debug.stack", "emit.7", "trace.3", "adv.push_mapval", "debug.mem", "debug.local"];
    let mut same_checked = 0u64;
    let mut diff_checked = 0u64;
    for case in 0..n {
        let nb = 2 + rng.below(12) as usize;
        let body_a: Vec<String> = (0..nb).map(|_| safe_instr(rng)).collect();
        let nb2 = 1 + rng.below(6) as usize;
        let body_p: Vec<String> = (0..nb2).map(|_| safe_instr(rng)).collect();
        let use_if = rng.chance(1, 2);
        let mk = |pname: &str, sep: &str, comment: &str, deco: &dyn Fn(usize) -> String,
                  body_a: &[String], body_p: &[String]| {
            let mut s = String::new();
            s.push_str(&format!("{}proc.{}{}", comment, pname, sep));
            for (i, ins) in body_p.iter().enumerate() {
                s.push_str(&deco(i));
                s.push_str(ins);
                s.push_str(sep);
            }
            // decorators also as the LAST instruction of a body (procedure, branch, repeat body, main)
            // and directly before an exec / control structure: positions where span merging happens
            s.push_str(&deco(300));
            s.push_str(&format!("end{}{}begin{}", sep, comment, sep));
            for (i, ins) in body_a.iter().enumerate() {
                s.push_str(&deco(i + 100));
                s.push_str(ins);
                s.push_str(sep);
                if i == 1 {
                    s.push_str(&deco(200));
                    s.push_str(&format!("exec.{}{}", pname, sep));
                    s.push_str(&format!("repeat.2{}swap{}{}end{}", sep, sep, deco(202), sep));
                    s.push_str(&format!("exec.{}{}", pname, sep));
                    if use_if {
                        s.push_str(&deco(203));
                        s.push_str(&format!(
                            "push.1{}if.true{}exec.{}{}else{}push.5 drop{}{}end{}",
                            sep, sep, pname, sep, sep, sep, deco(205), sep
                        ));
                    }
                }
            }
            // (a decorator with no operation before it in its span makes the assembler panic -
            // recorded in DESIGN.md section 6 item 9 - so it is only placed after an instruction)
            if body_a.len() > 2 {
                s.push_str(&deco(400));
            }
            s.push_str("end");
            s
        };
        let plain = mk("foo", " ", "", &|_| String::new(), &body_a, &body_p);
        let r0 = match compile(&plain, false) {
            Ok(p) => p,
            Err(e) => {
                em.oracle_failures.push(format!("C08 invariance: base source does not assemble: {} :: {}", plain, e));
                continue;
            }
        };
        let dsel = rng.next();
        let variants: Vec<(String, bool, &str)> = vec![
            (mk("foo", "\n   \t", "# a comment\n", &|_| String::new(), &body_a, &body_p), false, "whitespace+comments"),
            (mk("bar_renamed_procedure", " ", "", &|_| String::new(), &body_a, &body_p), false, "procedure name"),
            (plain.clone(), true, "debug mode"),
            (
                mk("foo", " ", "", &|i| {
                    if (dsel >> (i % 60)) & 1 == 1 || (i >= 200 && (dsel >> ((i * 7) % 61)) & 3 != 0) {
                        format!("{} ", decorators[(i + dsel as usize) % decorators.len()])
                    } else {
                        String::new()
                    }
                }, &body_a, &body_p),
                case % 2 == 0,
                "decorators",
            ),
        ];
        for (src, dbg, what) in variants {
            match compile(&src, dbg) {
                Ok(p) => {
                    same_checked += 1;
                    if p.hash() != r0.hash() {
                        em.oracle_failures.push(format!(
                            "C08 root changed under {}: base=`{}` variant=`{}`",
                            what, plain, src
                        ));
                    }
                }
                Err(e) => em.oracle_failures.push(format!(
                    "C08 variant ({}) does not assemble: `{}` :: {}",
                    what, src, e
                )),
            }
        }
        // sensitivity: replace one instruction by a different operation / immediate
        let idx = rng.below(nb as u64) as usize;
        let mut mutated = body_a.clone();
        let repl = loop {
            let c = safe_instr(rng);
            if c != mutated[idx] {
                break c;
            }
        };
        mutated[idx] = repl;
        let msrc = mk("foo", " ", "", &|_| String::new(), &mutated, &body_p);
        if let (Ok(pm), Ok(ops0), Ok(ops1)) =
            (compile(&msrc, false), flat_ops(&plain), flat_ops(&msrc))
        {
            if ops0 != ops1 {
                diff_checked += 1;
                if pm.hash() == r0.hash() {
                    em.oracle_failures.push(format!(
                        "C08 root unchanged although operations differ: `{}` vs `{}`",
                        plain, msrc
                    ));
                }
            }
        }
        // the hash recorded by an execution equals the program hash (asserted in execute();
        // a mismatch panics)
        if case % 4 == 0 {
            let r = run_impl(&r0, &[1, 2, 3, 4, 5, 6, 7, 8], processor::DefaultHost::default(),
                Lies::default(), None, "");
            if r.panicked {
                em.oracle_failures.push(format!("C08 execution panicked (hash mismatch or other): `{}`", plain));
            }
        }
    }
    // immediates in the list form of `push`: the root of `push.a.b.c` is the root of `push.a push.b
    // push.c` (same operations, same immediates), and changing one value of the list changes the root;
    // values at and around the encoding-width boundaries of the list form, in every position
    let mut bounds: Vec<u64> = vec![0, 1, 2, 254];
    for k in [7u32, 8, 9, 15, 16, 17, 31, 32, 33, 63] {
        let p2 = 1u64 << k;
        bounds.extend([p2 - 1, p2, p2 + 1]);
    }
    let mut list_checked = 0u64;
    for len in 2..=8usize {
        for (bi, b) in bounds.iter().copied().enumerate() {
            if (len + bi + n) % 2 != 0 {
                continue;
            }
            let pos = rng.below(len as u64) as usize;
            let vals: Vec<u64> = (0..len).map(|i| if i == pos { b } else { rng.below(200).min(b) }).collect();
            let list = format!("begin push.{} end", vals.iter().map(|v| v.to_string()).collect::<Vec<_>>().join("."));
            let singles = format!("begin {} end", vals.iter().map(|v| format!("push.{}", v)).collect::<Vec<_>>().join(" "));
            let mut other = vals.clone();
            other[pos] = if b == 0 { 3 } else { 0 };
            let changed = format!("begin push.{} end", other.iter().map(|v| v.to_string()).collect::<Vec<_>>().join("."));
            if let (Ok(pl), Ok(ps), Ok(pc)) = (compile(&list, false), compile(&singles, false), compile(&changed, false)) {
                list_checked += 1;
                if pl.hash() != ps.hash() {
                    em.oracle_failures.push(format!("C08 root of `{}` differs from the root of `{}` (same operations and immediates)", list, singles));
                }
                if pl.hash() == pc.hash() {
                    em.oracle_failures.push(format!("C08 root unchanged although an immediate differs: `{}` vs `{}`", list, changed));
                }
            }
        }
    }
    em.stat("push_list_root_checks", list_checked);
    em.stat("invariance_same_root_checks", same_checked);
    em.stat("sensitivity_checks", diff_checked);
}

/// Depth-first operation list of a compiled program (all spans of the root tree, in order).
fn flat_ops(src: &str) -> Result<Vec<String>, String> {
    let p = compile(src, false)?;
    let mut s = String::new();
    render_block(p.root(), &mut s);
    for (_, b) in reachable_table(&p) {
        render_block(&b, &mut s);
    }
    Ok(s.split_whitespace().map(|x| x.to_string()).collect())
}
