//! C07 — contexts isolate memory and stack; memory is zero-initialised word RAM.
use crate::execgen::*;
use crate::progs::*;
use crate::util::*;
use crate::Emitter;

const ADDRS: [u64; 6] = [0, 1, 2, 4294967295, 4294967294, 1073741824];

fn mem_op(rng: &mut Rng) -> String {
    let a = *rng.pick(&ADDRS);
    match rng.below(12) {
        0 => format!("mem_load.{} add", a),
        1 => format!("dup.0 mem_store.{}", a),
        2 => format!("padw mem_loadw.{} dropw", a),
        3 => format!("mem_storew.{}", a),
        4 => format!("push.{} mem_load add", a),
        5 => format!("dup.0 push.{} mem_store", a),
        6 => format!("push.{} mem_storew", a),
        7 => format!("padw push.{} mem_loadw dropw", a),
        8 => format!("push.{} movdn.12 mem_stream movup.12 drop", a % 4294967295),
        9 => format!("push.{} movdn.12 adv_pipe movup.12 drop", a % 4294967295),
        10 => "push.3 add".to_string(),
        _ => "swap".to_string(),
    }
}

fn history(rng: &mut Rng, max: u64) -> String {
    let n = 1 + rng.below(max) as usize;
    (0..n).map(|_| mem_op(rng)).collect::<Vec<_>>().join(" ")
}

pub fn generate(em: &mut Emitter, seed: u64, thorough: bool) {
    let mut rng = Rng::new(seed ^ 0xC07);
    // (1) general programs with calls/syscalls/dyn, memory + system registers compared
    let n = if thorough { 4000 } else { 250 };
    let (mut ok, mut err) = (0u64, 0u64);
    for _ in 0..n {
        let d = 1 + rng.below(3) as u32;
        let l = 2 + rng.below(4) as usize;
        let (k, src) = gen_program(&mut rng, true, d, l);
        if let Ok(p) = assemble(k.as_deref(), &src, false) {
            let st = random_stack(&mut rng);
            let adv = random_advice(&mut rng);
            if exec_case(em, &p, &st, &adv, None, "sys,mem").ok { ok += 1 } else { err += 1 }
        }
    }
    em.stat("general_ok", ok);
    em.stat("general_err", err);

    // (2) histories of loads/stores over colliding addresses in several contexts
    let m = if thorough { 6000 } else { 500 };
    let kernel = "export.kmem.2 push.77 loc_store.0 push.5 mem_store.1 mem_load.0 mem_load.1 add loc_load.1 add swap drop end\nexport.kcaller caller dropw padw dropw end\n";
    let (mut hok, mut herr) = (0u64, 0u64);
    for _ in 0..m {
        let h0 = history(&mut rng, 6);
        let h1 = history(&mut rng, 6);
        let h2 = history(&mut rng, 6);
        let h3 = history(&mut rng, 4);
        let nl = 1 + rng.below(3);
        let loc = format!("push.9 loc_store.{} loc_load.{}", rng.below(nl), rng.below(nl));
        let inner_kind = *rng.pick(&["call.inner", "exec.inner", "syscall.kmem", "procref.inner dyncall dropw", "procref.inner dynexec dropw"]);
        let src = format!(
            "proc.inner.{nl} {h2} {loc} drop end\nproc.outer.{nl} {h1} {loc} drop {inner_kind} {h3} end\nbegin {h0} call.outer {h3} syscall.kcaller exec.outer end"
        );
        let p = match assemble(Some(kernel), &src, false) {
            Ok(p) => p,
            Err(_) => continue,
        };
        let st = random_stack(&mut rng);
        let adv: Vec<u64> = (0..64).map(|_| rng.felt()).collect();
        if exec_case(em, &p, &st, &adv, None, "sys,mem").ok { hok += 1 } else { herr += 1 }
    }
    em.stat("history_ok", hok);
    em.stat("history_err", herr);

    // (3) direct oracles of the property (implementation vs. statement)
    let mut direct = 0u64;
    let mut check = |em: &mut Emitter, kernel: Option<&str>, src: &str, st: &[u64], adv: &[u64], what: &str,
                     pred: &dyn Fn(&ImplRun) -> bool| {
        match assemble(kernel, src, false) {
            Err(e) => em.oracle_failures.push(format!("C07 {}: does not assemble `{}` :: {}", what, src, e)),
            Ok(p) => {
                let r = exec_case(em, &p, st, adv, None, "sys,mem");
                if !pred(&r) {
                    em.oracle_failures.push(format!("C07 {}: `{}` stack={:?} -> {}", what, src, st, &r.answer[..r.answer.len().min(160)]));
                }
            }
        }
    };
    let top = |r: &ImplRun, n: usize| -> Vec<u64> {
        r.answer.split("stack=").nth(1).map(|s| s.split(' ').next().unwrap().split(',').take(n).filter_map(|x| x.parse().ok()).collect()).unwrap_or_default()
    };
    let full = |r: &ImplRun| -> Vec<u64> {
        r.answer.split("stack=").nth(1).map(|s| s.split(' ').next().unwrap().split(',').filter_map(|x| x.parse().ok()).collect()).unwrap_or_default()
    };
    for &a in &ADDRS {
        for v in [1u64, 7, 18446744069414584320] {
            direct += 6;
            // never-written address reads zeros (word and element)
            check(em, None, &format!("begin mem_load.{a} padw mem_loadw.{a} end"), &[], &[], "unwritten address must read zeros",
                &|r| r.ok && top(r, 5) == vec![0, 0, 0, 0, 0]);
            // read returns last written word; element store changes only element 0
            check(em, None, &format!("begin push.1.2.3.4 mem_storew.{a} dropw push.{v} mem_store.{a} padw mem_loadw.{a} end"), &[], &[],
                "element store must change only element 0", &|r| r.ok && top(r, 4) == vec![4, 3, 2, v]);
            // a callee's memory is fresh and the caller's is untouched
            check(em, None, &format!("proc.f mem_load.{a} push.{v} add push.55 mem_store.{a} swap drop end begin push.{v} mem_store.{a} call.f mem_load.{a} end"), &[], &[],
                "call must run in a fresh memory context", &|r| r.ok && top(r, 2) == vec![v, v]);
            // syscall runs against the root context's memory
            check(em, Some("export.k mem_load.0 swap drop end\n"), &format!("proc.g syscall.k end begin push.{v} mem_store.0 call.g end"), &[], &[],
                "syscall must see root-context memory", &|r| r.ok && top(r, 1) == vec![v]);
            // callee sees only the top 16 and zeros below; the caller's deep stack is restored
            let deep: Vec<u64> = (1..=20).map(|i| (i + v) % P).collect();
            check(em, None, "proc.f repeat.16 drop end sdepth swap drop end begin call.f end", &deep, &[],
                "callee must not see the caller's overflow; caller's deep stack must be intact afterwards",
                &|r| { let f = full(r); r.ok && f.len() == 20 && f[0] == 16 && f[1..16].iter().all(|x| *x == 0) && f[16..] == deep[16..] });
            check(em, None, "proc.f push.1 end begin call.f end", &deep, &[], "return with depth 17 must fail",
                &|r| r.answer == "err BadDepth(17)");
        }
    }
    for a in [4294967296u64, 4294967297, 18446744069414584320, 1 << 40] {
        for ins in ["mem_load", "mem_loadw", "mem_store", "mem_storew"] {
            direct += 1;
            check(em, None, &format!("begin push.{a} {ins} end"), &[1, 2, 3, 4, 5], &[], "address >= 2^32 must fail",
                &|r| r.answer == format!("err AddrOOB({})", a));
        }
        for ins in ["mem_stream", "adv_pipe"] {
            direct += 1;
            check(em, None, &format!("begin push.{a} movdn.12 {ins} end"), &[1, 2, 3, 4, 5], &[1, 2, 3, 4, 5, 6, 7, 8], "address >= 2^32 must fail",
                &|r| r.answer == format!("err AddrOOB({})", a));
        }
    }
    // two-word operations whose second word would sit at 2^32
    for ins in ["mem_stream", "adv_pipe"] {
        direct += 1;
        check(em, None, &format!("begin push.4294967295 movdn.12 {ins} end"), &[1, 2, 3, 4, 5], &[1, 2, 3, 4, 5, 6, 7, 8],
            "second word of a two-word access at address 2^32 must fail", &|r| !r.ok);
    }
    // syscall reaches only kernel procedures; caller outside a syscall fails; caller yields the
    // hash of the calling procedure
    direct += 1;
    check(em, Some("export.k caller end\n"), "proc.f syscall.k end begin call.f end", &[], &[], "caller in syscall must succeed", &|r| r.ok);
    // locals of simultaneously live frames never alias
    for k in 1..4u64 {
        direct += 1;
        let src = format!(
            "proc.inner.{k} push.111 loc_store.0 push.222 loc_store.{km} end\nproc.outer.{k} push.5 loc_store.0 push.6 loc_store.{km} exec.inner loc_load.0 loc_load.{km} end\nbegin exec.outer end",
            k = k, km = k - 1
        );
        check(em, None, &src, &[], &[], "locals of live frames must not alias", &|r| r.ok && (top(r, 2) == vec![6, 5] || (k == 1 && top(r, 2) == vec![6, 6])));
    }
    // whatever local index a callee uses - in range, the last one, or one the assembler should have
    // refused (index = number of locals, index 0 without locals) - a program that assembles must
    // leave the locals of the frame below intact
    let mut refused = 0u64;
    for ki in 0..4u64 {
        for ko in 1..4u64 {
            for j in [0u64, ki.saturating_sub(1), ki, ki + 1] {
                for ins in ["push.111 loc_store.{j}", "padw loc_storew.{j} dropw", "push.111 locaddr.{j} mem_store"] {
                    let body = ins.replace("{j}", &j.to_string());
                    let decl = if ki == 0 { "proc.inner".to_string() } else { format!("proc.inner.{}", ki) };
                    let stores: String = (0..ko).map(|i| format!("push.{} loc_store.{} ", 50 + i, i)).collect();
                    let loads: String = (0..ko).map(|i| format!("loc_load.{} ", i)).collect();
                    let src = format!("{decl} {body} end\nproc.outer.{ko} {stores} exec.inner {loads} end\nbegin exec.outer end");
                    direct += 1;
                    match assemble(None, &src, false) {
                        Err(_) => {
                            refused += 1;
                            if j < ki {
                                em.oracle_failures.push(format!("C07 valid local index {} of {} refused: {}", j, ki, src));
                            }
                        }
                        Ok(_) => {
                            let want: Vec<u64> = (0..ko).rev().map(|i| 50 + i).collect();
                            check(em, None, &src, &[], &[], "a callee's local access must not change the caller's locals",
                                &|r| r.ok && top(r, ko as usize) == want);
                        }
                    }
                }
            }
        }
    }
    em.stat("local_index_programs_refused_by_assembler", refused);
    em.stat("direct_oracle_checks", direct);
}
