//! C04 — the AIR rejects any deviation from an operation's defined effect (negative monitor).
use crate::airmon::*;
use crate::execgen::*;
use crate::progs::*;
use crate::util::*;
use crate::Emitter;
use air::trace::*;
use vm_core::{Felt, FieldElement, StarkField};
use winter_air::Air;
use winter_prover::Trace;

const S: usize = STACK_TRACE_OFFSET;
const B0: usize = STACK_TRACE_OFFSET + 16;
const B1: usize = STACK_TRACE_OFFSET + 17;
const HELPERS: usize = DECODER_TRACE_OFFSET + 8 + 2; // user-op helper registers h0..h5

/// Cells of the *next* row whose value the constraint system is documented to enforce for the
/// operation with this opcode, and helper cells of the *current* row tied to the operands.
fn enforced(opcode: u8) -> Option<(Vec<usize>, Vec<usize>)> {
    // b1 (overflow address) is tied by a transition constraint only on right shifts (b1' = clk);
    // on left shifts it is tied through the overflow-table running product, on other rows not at all
    let all_rs: Vec<usize> = (0..16).map(|i| S + i).chain([B0, B1]).collect();
    let all: Vec<usize> = (0..16).map(|i| S + i).chain([B0]).collect();
    let from = |k: usize| -> Vec<usize> { (k..16).map(|i| S + i).chain([B0, B1]).collect() };
    Some(match opcode {
        // no stack shift: noop eqz neg inv incr not fmpadd swap movup/dn swapw* ext2mul expacc
        0 | 1 | 2 | 3 | 4 | 5 | 6 | 8 | 10..=13 | 15..=30 => (all, vec![]),
        // left shift: assert eq add mul and or drop cswap cswapw fmpupdate
        32 | 33 | 34 | 35 | 36 | 37 | 41 | 42 | 43 | 47 => (all, vec![]),
        // u32and / u32xor: result comes from the bitwise chiplet over the bus
        38 | 39 => ((1..16).map(|i| S + i).chain([B0]).collect(), vec![]),
        // right shift: pad dup* sdepth clk
        48..=60 | 62 | 63 => (all_rs, vec![]),
        // push / advpop: the pushed value is not a stack-AIR matter
        100 | 61 => (from(1), vec![]),
        // u32 operations with 16-bit limb helpers
        72 => (all_rs, (0..4).map(|i| HELPERS + i).collect()),
        // U32SUB only decomposes the low result: h2, h3 are range-checked zeros tied to nothing
        66 => (all, (0..2).map(|i| HELPERS + i).collect()),
        64 | 68 | 70 | 76 | 78 => (all, (0..4).map(|i| HELPERS + i).collect()),
        74 => (all, (0..4).map(|i| HELPERS + i).collect()),
        // control flow: split loop (left shift), span join respan (no shift), repeat (left shift)
        84 | 85 | 116 => (all, vec![]),
        86 | 87 | 120 => (all, vec![]),
        // operations whose values travel over a bus or come from the host: the cells they leave alone
        // mload: no change from 1; caller / advpopw / mrupdate: no change from 4
        7 => ((1..16).map(|i| S + i).chain([B0]).collect(), vec![]),
        9 | 14 | 96 => ((4..16).map(|i| S + i).chain([B0]).collect(), vec![]),
        // mloadw: left shift from 5; mstore / mstorew: left shift from 1
        44 => ((4..16).map(|i| S + i).chain([B0]).collect(), vec![]),
        45 | 46 => (all, vec![]),
        // hperm: no change from 12; mpverify: no change at all
        80 => ((12..16).map(|i| S + i).chain([B0]).collect(), vec![]),
        81 => (all, vec![]),
        // pipe / mstream: no change from 8 except the pointer in position 12, which grows by 2
        82 | 83 => ((8..16).map(|i| S + i).chain([B0]).collect(), vec![]),
        _ => return None,
    })
}

/// Cells of a row the stack constraints read, in the order of the `air` request:
/// clk, fmp, helper0..5, s0..s15, b0, b1, h0.
fn row_cells(row: &[Felt]) -> Vec<u64> {
    let mut v = vec![row[CLK_COL_IDX].as_int(), row[FMP_COL_IDX].as_int()];
    v.extend((0..6).map(|i| row[HELPERS + i].as_int()));
    v.extend((0..16).map(|i| row[S + i].as_int()));
    v.extend([row[B0].as_int(), row[B1].as_int(), row[B1 + 1].as_int()]);
    v
}

fn set_opcode(row: &mut [Felt], opc: u8) {
    for b in 0..7 {
        row[DECODER_TRACE_OFFSET + 1 + b] = Felt::new(((opc >> b) & 1) as u64);
    }
    let (b6, b5, b4) = ((opc >> 6) & 1, (opc >> 5) & 1, (opc >> 4) & 1);
    // degree-reduction columns: e0 = b6 (1 - b5) b4, e1 = b6 b5
    row[DECODER_TRACE_OFFSET + 22] = Felt::new((b6 * (1 - b5) * b4) as u64);
    row[DECODER_TRACE_OFFSET + 23] = Felt::new((b6 * b5) as u64);
}

/// Schwartz-Zippel correspondence of the Lean AIR model with `stack::enforce_constraints`:
/// every opcode, random field elements in every other cell (constraints have degree <= 9 there).
fn air_correspondence(em: &mut Emitter, rng: &mut Rng, per_op: usize, honest: &[(Vec<Felt>, Vec<Felt>)]) {
    let emit = |em: &mut Emitter, cur: &[Felt], nxt: &[Felt], opc: u8| {
        let frame = winter_air::EvaluationFrame::from_rows(cur.to_vec(), nxt.to_vec());
        let mut out = vec![Felt::ZERO; air::stack::get_transition_constraint_count()];
        air::stack::enforce_constraints(&frame, &mut out);
        em.emit(
            format!("air {} {} {}", opc, join_u64(row_cells(cur)), join_u64(row_cells(nxt))),
            format!("cs {}", join_u64(out.iter().map(|f| f.as_int()))),
        );
    };
    let ops: Vec<u8> = crate::export::all_ops().iter().map(|o| o.op_code()).collect();
    for &opc in &ops {
        for k in 0..per_op {
            let mut cur: Vec<Felt> = (0..TRACE_WIDTH).map(|_| Felt::new(rng.next() % P)).collect();
            let nxt: Vec<Felt> = (0..TRACE_WIDTH).map(|_| Felt::new(rng.next() % P)).collect();
            set_opcode(&mut cur, opc);
            if k % 3 == 1 {
                // small / boundary values exercise the binary and depth-16 special cases
                for i in 0..16 {
                    cur[S + i] = Felt::new(rng.below(3));
                }
                cur[B0] = Felt::new(16 + rng.below(2));
                for i in 3..6 {
                    cur[HELPERS + i] = Felt::new(rng.below(2));
                }
            }
            emit(em, &cur, &nxt, opc);
        }
    }
    for (cur, nxt) in honest {
        let mut opc = 0u8;
        for b in 0..7 {
            if cur[DECODER_TRACE_OFFSET + 1 + b] == Felt::ONE {
                opc |= 1 << b;
            }
        }
        emit(em, cur, nxt, opc);
    }
}

pub fn generate(em: &mut Emitter, seed: u64, thorough: bool) {
    let mut rng = Rng::new(seed ^ 0xC04);
    let mut honest_frames: Vec<(Vec<Felt>, Vec<Felt>)> = Vec::new();
    let mut rows_done = 0u64;
    let mut perturbations = 0u64;
    let mut per_op: std::collections::BTreeMap<u8, u64> = Default::default();
    let mut missed: std::collections::BTreeMap<String, (u64, String)> = Default::default();
    let mut progs: Vec<(String, vm_core::Program, Vec<u64>, Vec<u64>)> = Vec::new();
    // traces: every instruction form (u32-safe operands) in three depth regimes + general programs
    let forms = crate::c05::instr_forms();
    for (j, f) in forms.iter().enumerate() {
        if !thorough && j % 3 != (seed as usize) % 3 {
            continue;
        }
        for depth in [16usize, 17, 21] {
            let st: Vec<u64> = (0..depth).map(|k| if k < 4 { rng.below(2) + (j as u64 % 2) * rng.below(1 << 32) } else { rng.u32ish() }).collect();
            let src = format!("begin {} end", f);
            if let Ok(p) = assemble(None, &src, false) {
                progs.push((src, p, st, vec![]));
            }
        }
    }
    // memory, advice, hasher and kernel operations (their stack effect is partly a bus matter)
    for (src, k, st, adv) in [
        ("begin push.7 mem_store.3 mem_load.3 push.1.2.3.4 mem_storew.9 dropw padw mem_loadw.9 dropw mem_load end", None, vec![3u64, 5, 6, 7, 8, 9, 10, 11, 12, 13, 14, 15, 16, 17, 18, 19, 20], vec![]),
        ("begin push.100 movdn.12 mem_stream push.200 movdn.12 adv_pipe hperm adv_loadw adv_push.2 end", None, (1..=18u64).collect(), (1..=16u64).collect()),
        ("begin hperm hmerge hash end", None, (1..=20u64).collect(), vec![]),
        ("proc.f syscall.k end begin call.f end", Some("export.k caller add add add end\n"), (1..=16u64).collect(), vec![]),
    ] {
        match assemble(k, src, false) {
            Ok(p) => progs.push((src.to_string(), p, st, adv)),
            Err(e) => em.oracle_failures.push(format!("C04 monitor program does not assemble: {} :: {}", src, e)),
        }
    }
    for i in 0..(if thorough { 300 } else { 30 }) {
        let (k, src) = gen_program(&mut rng, i % 3 == 0, 2, 3);
        if let Ok(p) = assemble(k.as_deref(), &src, false) {
            progs.push((src, p, random_stack(&mut rng), random_advice(&mut rng)));
        }
    }
    for (src, p, st, adv) in progs.iter() {
        let (trace, inputs) = match execute_trace(p, st, adv) {
            Ok(x) => x,
            Err(_) => continue,
        };
        let ctx = AirCtx::new(&trace, inputs);
        // only rows of the executed program (not the HALT padding)
        let n = trace.trace_len_summary().main_trace_len().min(ctx.last_step);
        for step in 0..n.saturating_sub(1) {
            let opc = ctx.opcode_at(step);
            let (next_cells, cur_cells) = match enforced(opc) {
                Some(x) => x,
                None => continue,
            };
            // skip rows that are not honest to begin with (undefined u32 inputs)
            if ctx.eval(&ctx.rows[step], &ctx.rows[step + 1], step).iter().any(|e| *e != Felt::ZERO) {
                continue;
            }
            rows_done += 1;
            *per_op.entry(opc).or_default() += 1;
            if honest_frames.len() < (if thorough { 20000 } else { 1500 }) && (rows_done % 3 == 0) {
                honest_frames.push((ctx.rows[step].clone(), ctx.rows[step + 1].clone()));
            }
            let depth = ctx.rows[step][B0].as_int();
            let left_shift = matches!(opc, 32..=47 | 76 | 78 | 84 | 85 | 116);
            let mut cells: Vec<(bool, usize)> = next_cells
                .iter()
                .filter(|c| !(left_shift && depth > 16 && **c == S + 15))
                .map(|c| (true, *c))
                .collect();
            cells.extend(cur_cells.iter().map(|c| (false, *c)));
            cells.push((true, CLK_COL_IDX));
            for (is_next, col) in cells {
                let orig = if is_next { ctx.rows[step + 1][col] } else { ctx.rows[step][col] };
                let cands = [
                    orig + Felt::ONE,
                    orig - Felt::ONE,
                    Felt::ZERO,
                    Felt::ONE,
                    orig + Felt::new(1 << 32),
                    Felt::new(rng.next() % P),
                    orig + Felt::new(1 << 16),
                ];
                for v in cands {
                    if v == orig {
                        continue;
                    }
                    let mut cur = ctx.rows[step].clone();
                    let mut nxt = ctx.rows[step + 1].clone();
                    if is_next {
                        nxt[col] = v;
                    } else {
                        cur[col] = v;
                    }
                    perturbations += 1;
                    let ev = ctx.eval(&cur, &nxt, step);
                    if ev.iter().all(|e| *e == Felt::ZERO) {
                        let key = format!("opcode={} {}{}", opc, if is_next { "next." } else { "cur." }, col_name(col));
                        let e = missed.entry(key).or_insert((0, String::new()));
                        e.0 += 1;
                        if e.1.is_empty() {
                            e.1 = format!("step {} value {} -> {} in `{}` stack={:?}", step, orig.as_int(), v.as_int(), &src[..src.len().min(160)], &st[..st.len().min(6)]);
                        }
                    }
                }
            }
        }
    }
    for (k, (n, ex)) in missed.iter() {
        em.oracle_failures.push(format!("C04 altered cell accepted by every transition constraint: {} ({} times), e.g. {}", k, n, ex));
    }
    // chiplets (hasher, bitwise, memory, kernel ROM) and range checker
    let mut table: std::collections::BTreeMap<String, (u64, u64, String)> = Default::default();
    let mut chip_perturbations = 0u64;
    let kernel = "export.k1 push.1 drop end\nexport.k2 push.2 drop end\n";
    let chip_progs: Vec<(&str, Option<&str>, Vec<u64>, Vec<u64>)> = vec![
        ("begin hperm hmerge hash end", None, vec![1, 2, 3, 4, 5, 6, 7, 8, 9, 10, 11, 12], vec![]),
        ("begin u32and u32xor u32or u32not end", None, vec![0xFFFF_FFFF, 0x1234_5678, 7, 0, 0x8000_0001], vec![]),
        ("begin push.5 mem_store.3 mem_load.3 push.1.2.3.4 mem_storew.9 dropw padw mem_loadw.9 mem_load.3 push.7 mem_store.3 mem_load.4294967295 mem_load.0 end", None, vec![], vec![]),
        ("proc.f push.9 mem_store.3 mem_load.3 mem_load.4 end begin push.5 mem_store.3 call.f mem_load.3 call.f end", None, vec![], vec![]),
        ("begin push.100 movdn.12 mem_stream push.200 movdn.12 adv_pipe hperm end", None, vec![], vec![1, 2, 3, 4, 5, 6, 7, 8]),
        ("begin syscall.k1 syscall.k2 syscall.k1 push.3 mem_store.1 end", Some(kernel), vec![], vec![]),
        ("begin push.1 u32split drop push.65535 push.4294967295 u32wrapping_add push.70000 u32split drop drop drop end", None, vec![], vec![]),
    ];
    for (src, k, st, adv) in chip_progs.iter() {
        let p = match assemble(*k, src, false) {
            Ok(p) => p,
            Err(e) => {
                em.oracle_failures.push(format!("C04 chiplet program does not assemble: {} :: {}", src, e));
                continue;
            }
        };
        if let Ok((mut trace, inputs)) = execute_trace(&p, st, adv) {
            let ctx = AirCtx::new(&trace, inputs);
            chip_perturbations += chiplet_monitor(&ctx, &mut trace, &mut rng, &mut table, src);
        }
    }
    // Merkle operations exercise the MP_VERIFY / MR_UPDATE hasher selectors
    {
        use processor::{crypto::{MerkleStore, MerkleTree}, AdviceInputs, DefaultHost, MemAdviceProvider};
        let leaves: Vec<vm_core::Word> = (0..8u64).map(|i| [Felt::new(i + 1), Felt::new(2 * i), Felt::new(7), Felt::new(i * i)]).collect();
        let tree = MerkleTree::new(leaves.clone()).unwrap();
        let store = MerkleStore::from(&tree);
        let root: vm_core::Word = tree.root().into();
        for (src, extra) in [("begin mtree_get end", vec![]), ("begin mtree_set end", vec![9u64, 8, 7, 6])] {
            let p = assemble(None, src, false).unwrap();
            let mut st: Vec<u64> = vec![3, 5];
            st.extend(root.iter().rev().map(|f| f.as_int()));
            st.extend(extra.iter());
            let mut rev = st.clone();
            rev.reverse();
            let inputs = processor::StackInputs::try_from_values(rev).unwrap();
            let host = DefaultHost::new(MemAdviceProvider::from(AdviceInputs::default().with_merkle_store(store.clone())));
            if let Ok(mut trace) = processor::execute(&p, inputs.clone(), host, processor::ExecutionOptions::default()) {
                let ctx = AirCtx::new(&trace, inputs);
                chip_perturbations += chiplet_monitor(&ctx, &mut trace, &mut rng, &mut table, src);
            }
        }
    }
    let mut free_cells = 0u64;
    for (key, (acc, tot, ex)) in table.iter() {
        if *acc > 0 {
            if chiplet_cell_is_free(key, *acc, *tot) {
                free_cells += 1;
            } else {
                em.oracle_failures.push(format!("C04 altered chiplet/range cell accepted by every transition constraint: {} ({} of {} alterations), e.g. {}", key, acc, tot, ex));
            }
        }
    }
    if std::env::var("MVH_CHIP_TABLE").is_ok() {
        for (key, (acc, tot, ex)) in table.iter() {
            eprintln!("CHIP {} | {}/{} | {}", key, acc, tot, ex);
        }
    }
    em.stat("chiplet_range_perturbations", chip_perturbations);
    em.stat("chiplet_cell_classes", table.len());
    em.stat("chiplet_cell_classes_documented_free", free_cells);
    em.stat("row_pairs", rows_done);
    em.stat("perturbations", perturbations);
    em.stat("rows_per_opcode", format!("{:?}", per_op));
    directed(em);
    air_correspondence(em, &mut rng, if thorough { 60 } else { 6 }, &honest_frames);
    em.stat("air_model_frames_random_per_opcode", if thorough { 60 } else { 6 });
    em.stat("air_model_frames_honest", honest_frames.len());
}


// ---- chiplets and range checker: negative monitor ------------------------------------------------

const CH: usize = CHIPLETS_OFFSET;

/// Kind of a chiplet row from its selector columns, with the sub-kind that decides which cells the
/// transition constraints tie (position in the 8-row cycle, operation selectors).
fn chiplet_kind(row: &[Felt], step: usize) -> (String, bool) {
    let s = |i: usize| row[CH + i].as_int();
    if s(0) == 0 {
        // hasher: selectors s1..s3, cycle position
        (format!("hasher[pos={} sel={}{}{}]", step % 8, s(1), s(2), s(3)), true)
    } else if s(1) == 0 {
        (format!("bitwise[pos={} op={}]", step % 8, s(2)), true)
    } else if s(2) == 0 {
        (format!("memory[sel={}{}]", s(3), s(4)), true)
    } else if s(3) == 0 {
        ("kernelrom".to_string(), true)
    } else {
        ("padding".to_string(), false)
    }
}

/// Alters every chiplet / range-checker cell of every row of the chiplet and range regions of honest
/// traces and records which alterations are accepted by BOTH adjacent transitions (main constraints,
/// and for the range checker also the auxiliary LogUp constraint). Returns (key -> (accepted, total, example)).
fn chiplet_monitor(
    ctx: &AirCtx,
    trace: &mut processor::ExecutionTrace,
    rng: &mut Rng,
    table: &mut std::collections::BTreeMap<String, (u64, u64, String)>,
    what: &str,
) -> u64 {
    let mut perturbations = 0u64;
    let summary = *trace.trace_len_summary();
    let cl = summary.chiplets_trace_len();
    let chip_rows = cl.hash_chiplet_len() + cl.bitwise_chiplet_len() + cl.memory_chiplet_len() + cl.kernel_rom_len();
    let last = ctx.last_step; // transitions (last-1, last) are constrained, (last, last+1) is exempt
    // auxiliary segment for the range checker's LogUp column
    let rand: Vec<Felt> = (0..16).map(|_| Felt::new(1 + rng.next() % (P - 1))).collect();
    let mut rand_elements = winter_air::AuxTraceRandElements::new();
    rand_elements.add_segment_elements(rand.clone());
    let aux: winter_prover::matrix::ColMatrix<Felt> = trace.build_aux_segment(&[], &rand).expect("aux segment");
    let aux_row = |r: usize| -> Vec<Felt> { (0..aux.num_cols()).map(|c| aux.get(c, r)).collect() };
    let aux_ok = |cur: &[Felt], nxt: &[Felt], step: usize| -> bool {
        let main_frame = winter_air::EvaluationFrame::from_rows(cur.to_vec(), nxt.to_vec());
        let aux_frame = winter_air::EvaluationFrame::from_rows(aux_row(step), aux_row(step + 1));
        let mut out = vec![Felt::ZERO; ctx.air.context().num_aux_transition_constraints()];
        ctx.air.evaluate_aux_transition(&main_frame, &aux_frame, &ctx.periodic_at(step), &rand_elements, &mut out);
        out.iter().all(|e| *e == Felt::ZERO)
    };
    let main_ok = |cur: &[Felt], nxt: &[Felt], step: usize| -> bool { ctx.eval(cur, nxt, step).iter().all(|e| *e == Felt::ZERO) };

    // --- chiplet columns -----------------------------------------------------------------------
    let upto = (chip_rows + 2).min(last);
    for r in 1..upto {
        let (kind, _) = chiplet_kind(&ctx.rows[r], r);
        // the AIR of this version has no constraints for kernel ROM rows; padding rows carry nothing
        if kind == "padding" || kind == "kernelrom" {
            continue;
        }
        let (prev_kind, _) = chiplet_kind(&ctx.rows[r - 1], r - 1);
        let prev_class = prev_kind.split('[').next().unwrap().to_string();
        // memory: is this the first access to its (ctx, addr)?
        let mut extra = String::new();
        if kind.starts_with("memory") && prev_class == "memory" {
            let same = ctx.rows[r][CH + 5] == ctx.rows[r - 1][CH + 5] && ctx.rows[r][CH + 6] == ctx.rows[r - 1][CH + 6];
            extra = if same { " same-addr".into() } else { " new-addr".into() };
        }
        // first row of a hash cycle that continues a computation (absorption of the next elements or
        // of the next Merkle path node): its state cells are the inputs of a new permutation, so a
        // prover who alters one of them recomputes the seven rounds below it; only the transition from
        // the last row of the previous cycle can tie such a cell (capacity carried over, previous digest
        // copied to the position selected by the bit shifted out of the node index)
        let mut first_of_cycle = false;
        if kind.starts_with("hasher[pos=0") && prev_class == "hasher" && r % 8 == 0 {
            let ps = |i: usize| ctx.rows[r - 1][CH + i].as_int();
            let b = ctx.rows[r - 1][CH + 16].as_int().wrapping_sub(2 * ctx.rows[r][CH + 16].as_int());
            extra = format!(" prev-sel={}{}{} b={}", ps(1), ps(2), ps(3), if b <= 1 { b.to_string() } else { "-".into() });
            first_of_cycle = true;
        }
        for c in 0..CHIPLETS_WIDTH {
            let col = CH + c;
            let orig = ctx.rows[r][col];
            let cands = [orig + Felt::ONE, orig - Felt::ONE, Felt::ZERO, Felt::ONE, Felt::new(rng.next() % P), orig + Felt::new(1 << 16)];
            for v in cands {
                if v == orig {
                    continue;
                }
                let mut row = ctx.rows[r].clone();
                row[col] = v;
                perturbations += 1;
                let ok1 = main_ok(&ctx.rows[r - 1], &row, r - 1);
                let ok2 = r + 1 > last || (first_of_cycle && (4..=15).contains(&c)) || main_ok(&row, &ctx.rows[r + 1], r);
                let key = format!("{}{} after {} col{}", kind, extra, prev_class, c);
                let e = table.entry(key).or_insert((0, 0, String::new()));
                e.1 += 1;
                if ok1 && ok2 {
                    e.0 += 1;
                    if e.2.is_empty() {
                        e.2 = format!("row {} chiplet column {}: {} -> {} in {}", r, c, orig.as_int(), v.as_int(), what);
                    }
                }
            }
        }
    }
    // --- range checker columns (multiplicity, value) ----------------------------------------------
    for r in 1..last {
        for c in 0..RANGE_CHECK_TRACE_WIDTH {
            let col = RANGE_CHECK_TRACE_OFFSET + c;
            let orig = ctx.rows[r][col];
            // the value of a row that is looked up zero times (bridge rows between looked-up values,
            // the 65535 padding) only has to keep the deltas valid: another valid table, not a deviation
            if c == 1 && ctx.rows[r][RANGE_CHECK_TRACE_OFFSET] == Felt::ZERO {
                continue;
            }
            let cands = [orig + Felt::ONE, orig - Felt::ONE, Felt::ZERO, Felt::new(rng.next() % P), orig + Felt::new(3)];
            for v in cands {
                if v == orig {
                    continue;
                }
                let mut row = ctx.rows[r].clone();
                row[col] = v;
                perturbations += 1;
                let ok1 = main_ok(&ctx.rows[r - 1], &row, r - 1) && aux_ok(&ctx.rows[r - 1], &row, r - 1);
                let ok2 = r + 1 > last || (main_ok(&row, &ctx.rows[r + 1], r) && aux_ok(&row, &ctx.rows[r + 1], r));
                let key = format!("range col{}", c);
                let e = table.entry(key).or_insert((0, 0, String::new()));
                e.1 += 1;
                if ok1 && ok2 {
                    e.0 += 1;
                    if e.2.is_empty() {
                        e.2 = format!("row {} range column {}: {} -> {} in {}", r, c, orig.as_int(), v.as_int(), what);
                    }
                }
            }
        }
        if r > 300 {
            break;
        }
    }
    perturbations
}

/// Cells that the transition constraints of the AIR leave free by design (calibrated on the unchanged
/// tree and cross-read with docs/src/design/chiplets/{hasher,bitwise,memory}.md): they are inputs of
/// a new computation or are tied by the chiplets bus, not by the chiplet's internal logic.
fn chiplet_cell_is_free(key: &str, acc: u64, tot: u64) -> bool {
    let col: usize = key.rsplit("col").next().and_then(|c| c.parse().ok()).unwrap_or(99);
    let hasher = key.starts_with("hasher");
    let bitwise = key.starts_with("bitwise");
    let memory = key.starts_with("memory");
    let first_row = !key.contains("after memory") && memory;
    // columns 15, 16 are not used by the bitwise and memory chiplets
    if (bitwise || memory) && col >= 15 {
        return true;
    }
    // hasher.md: "in all other cases s0 should be unconstrained"
    if hasher && col == 1 {
        return true;
    }
    // output row of a hash cycle: RETURN_HASH vs RETURN_STATE is chosen by the requester (bus)
    if hasher && key.contains("pos=7") && col == 3 {
        return true;
    }
    // state cells of the first row of a cycle (see `first_of_cycle`): after an output row the next
    // computation is unconstrained (hasher.md: "when a computation is completed the next hasher state
    // is unconstrained"); after ABP the rate receives the absorbed elements; after MPA / MVA / MUA the
    // half of the rate that does not receive the previous digest receives the sibling
    if hasher && key.contains(" prev-sel=") && (4..=15).contains(&col) {
        if key.contains("prev-sel=000") || key.contains("prev-sel=001") {
            return true;
        }
        if key.contains("prev-sel=100") {
            return col >= 8;
        }
        // hasher.md documents no constraint for the capacity when a Merkle path node is absorbed (only
        // the digest copy); the honest prover writes zeros there. Not an enforced cell in the sense of
        // the property, recorded as an observation in DESIGN.md section 13.
        if col <= 7 {
            return true;
        }
        if key.contains(" b=0") {
            return col >= 12;
        }
        if key.contains(" b=1") {
            return (8..=11).contains(&col);
        }
        return false;
    }
    // node index in the first row of a Merkle path computation is an input (tied by the bus); the
    // index with the other parity of the lowest bit is an equally valid start
    if hasher && key.contains("pos=0") && col == 16 && acc * 2 <= tot {
        return true;
    }
    if memory {
        // the first memory row has no memory predecessor: its cells are inputs
        if first_row && (2..=14).contains(&col) {
            return true;
        }
        // values written by a write
        if key.contains("sel=00") && (8..=11).contains(&col) {
            return true;
        }
        // clock cycle of the first access to a (ctx, addr) pair: the delta is the address delta
        if key.contains("new-addr") && col == 7 {
            return true;
        }
        // d_inv is only read when ctx or addr change
        if key.contains("same-addr") && col == 14 {
            return true;
        }
        // rare consistent alternatives: the segment may end one row earlier (col 2), a write of
        // zeros is also a valid initial read (col 3), a context change whose delta happens to fit
        if key.contains("new-addr") && (col == 2 || col == 3 || col == 5) && acc * 2 <= tot {
            return true;
        }
    }
    false
}

fn col_name(col: usize) -> String {
    if col >= S && col < S + 16 {
        format!("s{}", col - S)
    } else if col == B0 {
        "b0".into()
    } else if col == B1 {
        "b1".into()
    } else if col == CLK_COL_IDX {
        "clk".into()
    } else if col >= HELPERS && col < HELPERS + 6 {
        format!("helper{}", col - HELPERS)
    } else {
        format!("col{}", col)
    }
}

/// Multi-cell "consistent lies" that single-cell perturbation cannot find.
fn directed(em: &mut Emitter) {
    // EXPACC with a non-binary bit': bit' = 3, b' = (b - 3) / 2, val = 1 + 3 (exp - 1), acc' = acc val
    let src = "begin push.11 push.7 push.5 push.0 exp.u4 end";
    let p = match assemble(None, "begin expacc_placeholder end", false) {
        _ => assemble(None, "begin push.2 exp.u4 end", false),
    };
    if let Ok(p) = p {
        if let Ok((trace, inputs)) = execute_trace(&p, &[5, 0, 0, 0], &[]) {
            let ctx = AirCtx::new(&trace, inputs);
            let n = trace.trace_len_summary().main_trace_len();
            let mut tried = 0;
            for step in 0..n - 1 {
                if ctx.opcode_at(step) != 15 {
                    continue;
                }
                tried += 1;
                let cur0 = &ctx.rows[step];
                let exp = cur0[S + 1];
                let acc = cur0[S + 2];
                let b = cur0[S + 3];
                let three = Felt::new(3);
                let bitp = three;
                let val = Felt::ONE + three * (exp - Felt::ONE);
                let mut cur = cur0.clone();
                let mut nxt = ctx.rows[step + 1].clone();
                cur[HELPERS] = val;
                nxt[S] = bitp;
                nxt[S + 1] = exp * exp;
                nxt[S + 2] = acc * val;
                nxt[S + 3] = (b - three) * Felt::new(2).inv();
                let ev = ctx.eval(&cur, &nxt, step);
                if ev.iter().all(|e| *e == Felt::ZERO) {
                    em.oracle_failures.push(format!(
                        "C04 EXPACC accepts a non-binary bit: row at step {} of `{}` with bit'=3, b'=(b-3)/2, val=1+3(exp-1), acc'=acc*val satisfies every transition constraint",
                        step, src
                    ));
                    break;
                }
            }
            if tried == 0 {
                em.oracle_failures.push("C04 directed EXPACC test found no EXPACC row".into());
            }
        }
    }
}
