#!/usr/bin/env python3
"""archive_seed.py <ID> <PROP> <outdir> <status> <outcome text>  — copy a confirmed seeded change into /verif/seeded/<ID>/."""
import json, os, shutil, sys
sid, prop, out, status, outcome = sys.argv[1:6]
dst = f"/verif/seeded/{sid}"
os.makedirs(dst, exist_ok=True)
shutil.copy(f"{out}/patch.diff", f"{dst}/patch.diff")
if os.path.isdir(f"{dst}/demo"): shutil.rmtree(f"{dst}/demo")
shutil.copytree(f"{out}/demo", f"{dst}/demo")
m = json.load(open(f"{out}/meta.json"))
res = [l.strip() for l in open(f"{out}/confirm.log") if l.startswith("RESULT")][-1]
meta = {
    "id": sid, "property": prop,
    "breaks": m.get("summary") or m.get("breaks") or m.get("change"),
    "why_it_breaks": m.get("why_it_breaks"),
    "needs_to_manifest": m.get("needs_to_manifest") or m.get("what_it_needs_to_manifest") or m.get("needs"),
    "confirmed": {"how": "tools/confirm_seed.sh in a scratch worktree of /repo: demo passes without the patch, existing suite passes with the patch, demo fails with the patch", "result": res},
    "check_result": {"status": status, "what_ran": f"tools/try_seed.sh seeded/{sid}/patch.diff {prop}", "outcome": outcome},
}
json.dump(meta, open(f"{dst}/meta.json", "w"), indent=2)
print("archived", dst, [k for k, v in meta.items() if v is None])
