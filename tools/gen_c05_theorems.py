#!/usr/bin/env python3
"""Development-time helper: writes lean/Miden/Props/C05Auto.lean, one refinement theorem per
instruction form listed in lean/Miden/Generated/InstrOps.lean (statement: the operations the real
assembler emits for the instruction refine the instruction reference on every stack of depth >= 16).
Forms listed in SKIP are proved by hand in Props/C05.lean or not yet proved."""
import re, sys
src = open('/verif/lean/Miden/Generated/InstrOps.lean').read()
forms = re.findall(r'\("([^"]+)", ops_', src)

def camel(name):
    parts = name.split('_')
    return parts[0] + ''.join(p.capitalize() for p in parts[1:])

SIMPLE = {"assert_eq": "assertEq", "assert_eqw": "assertEqw", "is_odd": "isOdd"}

def instr_term(t):
    parts = t.split('.')
    n = parts[0]
    base = SIMPLE.get(n, camel(n))
    if n in ("assert", "assertz", "assert_eq", "assert_eqw", "u32assert", "u32assert2", "u32assertw"):
        c = 0
        if len(parts) == 2:
            c = int(parts[1].split('=')[1])
        return f"(.{base} {c})"
    if n == "push":
        return "(.push [" + ", ".join(parts[1:]) + "])"
    if n == "exp" and len(parts) == 2:
        if parts[1].startswith('u'):
            return f"(.expBits {parts[1][1:]})"
        return f"(.expImm {parts[1]})"
    if n in ("dup", "dupw", "swap", "swapw", "movup", "movdn", "movupw", "movdnw"):
        if len(parts) == 1:
            d = {"dup": 0, "dupw": 0, "swap": 1, "swapw": 1}[n]
            return f"(.{base} {d})"
        return f"(.{base} {parts[1]})"
    if len(parts) == 2:
        return f"(.{base}Imm {parts[1]})"
    return f".{base}"

def mangle(t):
    return t.replace('.', '_').replace('=', '_')

skip = set(l.strip() for l in open('/verif/tools/c05_skip.txt')) if len(sys.argv) > 1 and sys.argv[1] == 'skip' else set()
out = ["""/-
  GENERATED at development time by tools/gen_c05_theorems.py (statements only follow a fixed
  template; the proofs are checked by Lean like any other).  One theorem per instruction form:
  the operations the real assembler emits (Generated/InstrOps.lean, regenerated on every run) refine
  the instruction reference (Spec/Instr.lean) on every stack of depth >= 16, with every other
  component of the machine state arbitrary.
-/
import Miden.Lemmas.InstrTac
namespace Miden.C05
open Miden Miden.Spec
"""]
for f in forms:
    if f in skip:
        continue
    m = mangle(f)
    out.append(f"theorem refines_{m} : ∀ vm : Vm, 16 ≤ vm.stack.length → (∀ x ∈ vm.stack, x < P) →\n    Refines (stackRun Generated.ops_{m} vm) (sem {instr_term(f)} vm.stack) := by\n  instr_tac Generated.ops_{m}\n")
out.append("end Miden.C05\n")
open('/verif/lean/Miden/Props/C05Auto.lean', 'w').write("\n".join(out))
print(len(forms), "forms,", len(skip), "skipped")
