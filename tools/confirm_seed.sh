#!/bin/bash
# confirm_seed.sh <ID> <worktree> <outdir> <demo-dest-relative-path> <demo cargo args...>
# Confirms a seeded change: existing suite passes with the patch, demo fails with it and passes without.
set -u
ID=$1; WT=$2; OUT=$3; DEMO_DEST=$4; shift 4
export CARGO_NET_OFFLINE=true
cd "$WT" || exit 2
LOG=$OUT/confirm.log
: > "$LOG"
git checkout -- . 2>>"$LOG"
rm -f "$DEMO_DEST"
echo "== demo WITHOUT patch" >>"$LOG"
mkdir -p "$(dirname "$DEMO_DEST")"; cp "$OUT/demo/$(basename "$DEMO_DEST")" "$DEMO_DEST"
cargo test --offline "$@" >>"$LOG" 2>&1; R_WITHOUT=$?
rm -f "$DEMO_DEST"
git apply "$OUT/patch.diff" 2>>"$LOG" || { echo "patch does not apply" >>"$LOG"; exit 2; }
echo "== existing suite WITH patch" >>"$LOG"
cargo test --workspace --offline --no-fail-fast >"$OUT/suite_with_patch.log" 2>&1; R_SUITE=$?
grep -E "^test result|FAILED|failed" "$OUT/suite_with_patch.log" >>"$LOG"
echo "== demo WITH patch" >>"$LOG"
cp "$OUT/demo/$(basename "$DEMO_DEST")" "$DEMO_DEST"
cargo test --offline "$@" >>"$LOG" 2>&1; R_WITH=$?
rm -f "$DEMO_DEST"
echo "RESULT id=$ID demo_without_patch_rc=$R_WITHOUT suite_with_patch_rc=$R_SUITE demo_with_patch_rc=$R_WITH" | tee -a "$LOG"
