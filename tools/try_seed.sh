#!/bin/bash
# try_seed.sh <patch.diff> <PROP> [tier]  -- applies a seeded change to /repo, runs the check, reverts.
set -u
PATCH=$1; PROP=$2; TIER=${3:-quick}
cd /repo || exit 2
if [ -n "$(git status --porcelain)" ]; then echo "/repo not clean"; exit 2; fi
git apply "$PATCH" || { echo "patch does not apply"; exit 2; }
cd /verif
./check "$PROP" --tier "$TIER" 2>&1 | grep -v conda | cut -c1-600
RC=${PIPESTATUS[0]}
git -C /repo checkout -- .
git -C /repo status --porcelain
git -C /verif checkout -- evidence lean/Miden/Generated 2>/dev/null
echo "TRY_SEED prop=$PROP patch=$PATCH rc=$RC"
