"""Per-property configuration of ./check."""

PROPS = {
    "C08": {
        "module": "Miden.Props.C08",
        "gens": ["C08"],
        "diff_is_witness": True,
        "assumptions": [
            "RPO collision resistance is NOT assumed; hash sensitivity is checked on the implementation only (metamorphic).",
            "Decorators are outside the model: the harness strips them when it renders a MAST, their invisibility is a metamorphic check on the real assembler.",
        ],
        "trusted_base": ["RPO round constants/MDS are exported from the linked miden-crypto crate"],
        "level_text": "Kernel-checked theorems: batching well-formedness (<=8 groups, <=9 ops/group), batching is a partition of the op sequence, the opcode table equals the one compiled into the crate, MAST hash equations with opcode domains; the executable Lean batching+RPO+MAST-hash model is diffed against Span::new/CodeBlock::hash on exhaustive push patterns and random trees; decorator/whitespace/name invariance and op-sensitivity are metamorphic checks on the real assembler.",
        "level_note": "Trusted: Lean kernel, harness and export code, miden-crypto's constants as exported; RPO collision resistance is not assumed. Decoding-of-groups and hash-sensitivity theorems are not yet proved (checked by correspondence/metamorphic runs only).",
    },
    "C15": {
        "module": "Miden.Props.C15",
        "gens": ["C15"],
        "diff_is_witness": True,
        "assumptions": ["The executor model (lean/Miden/Model/Exec.lean) mirrors processor/src/lib.rs + decoder/mod.rs; tied by correspondence on generated programs x limits n-2..n+2"],
        "level_text": "Theorems (all programs/states): a row is refused exactly when it would be row max+1 and the error names the limit; any successful block execution ends with clk <= max, spends >= 1 cycle, appends exactly one trace row per cycle; ExecutionOptions are refused iff max < 64 or max < expected. Harness: every generated program is run under limits n-2..n+2 and 64 (n = its exact cycle count) and unbounded loops under 5 limits, against both the model and the statement's oracle.",
        "level_note": "Full `limit_exact` (success under m iff cycles <= m, as one theorem relating two runs) is not yet proved; the two halves above are. Trusted: Lean kernel, harness, model-vs-impl correspondence.",
    },
    "C13": {
        "module": "Miden.Props.C13",
        "gens": ["C13"],
        "diff_is_witness": True,
        "assumptions": ["Decoder hasher/bookkeeping columns other than the op code are not in the model yet"],
        "level_text": "Theorem decoded_stream_is_dfs: for every program, input and decision sequence the rows appended by a successful execution are a depth-first run of the MAST (inductive relation Runs: block start, executed children, REPEAT-separated loop iterations, table-resolved callees, END; spans contribute their batched ops with RESPAN and alignment NOOPs), one row per cycle. The executor model's op stream is diffed against VmStateIterator on generated programs (all block kinds, calls, syscalls, dyn, multi-batch spans).",
        "level_note": "NOOP placement inside a span is defined by the model's batchExecOps (tied to the implementation by correspondence), not yet characterised by a theorem; group counter / hasher columns are not modelled.",
    },
    "C06": {
        "module": "Miden.Props.C06",
        "gens": ["C06"],
        "diff_is_witness": True,
        "assumptions": ["repeat.n unrolling and exec inlining happen in the assembler and are checked metamorphically on the real assembler, not proved"],
        "level_text": "Theorems over the executor model for arbitrary sub-blocks, states and fuel: non-binary condition at if / loop entry / after a loop iteration never succeeds; if executes exactly the selected branch; loops iterate exactly while the popped value is 1; join sequences its children. Harness: model-vs-impl correspondence on nested control flow with 10% non-binary conditions, a grid of condition values at every decision point against the statement's oracle, repeat.n == n copies and exec == inlined body on the real assembler.",
        "level_note": "Lowering of repeat/exec (assembler) is not modelled. Trusted: Lean kernel, harness.",
    },
    "C07": {
        "module": "Miden.Props.C07",
        "gens": ["C07"],
        "diff_is_witness": True,
        "assumptions": ["locals disjointness relies on the assembler's fmp prologue/epilogue, exercised by direct oracle programs only"],
        "level_text": "Theorems: memory is a zero-default map per (context,address) (read-after-write, other keys untouched); mstore changes only element 0; every memory op fails on addresses >= 2^32 including the second word of mem_stream/adv_pipe; for every callee and caller state, a returning call/syscall/dyncall restores the caller's stack below 16, ctx, fmp and fn hash, the callee starts with exactly 16 visible elements, fresh ctx = clk+1, fmp 2^30 (2^31 for syscalls), non-kernel syscall targets fail, a return with depth != 16 fails; caller semantics; the visible depth never drops below 16 (invariant over all 88 operations and all block kinds). Harness: histories of colliding loads/stores across nested call/syscall/dyncall/dynexec contexts with memory dumps of every context compared with the model; direct oracle programs for each clause.",
        "level_note": "Locals disjointness is an oracle check on real programs (assembler not modelled). Trusted: Lean kernel, harness.",
    },
    "C14": {
        "module": "Miden.Props.C14",
        "gens": ["C14"],
        "diff_is_witness": True,
        "assumptions": ["Capacity hints, tracing/debug flags and decorators do not exist in the model; their irrelevance is decided on the implementation (trace fingerprints under 7 hint/flag variants, debug assembly, inserted decorators)", "History reconstruction (get_state_at) is checked on the implementation against its own forward states, not modelled"],
        "level_text": "Theorems: the executor's result is independent of its resource bound (fuel monotonicity for all blocks, hence determinism across bounds), operations never advance the clock themselves, clk pushes the clock. Harness: whole-trace fingerprints of the real processor under expected-cycles hints 1..2^15 and tracing on/off, debug-mode assembly and randomly inserted decorators must equal the base run; the step iterator is walked forward and backward and every revisited state must equal the forward state of the same clock; clk instructions are checked against the row index.",
        "level_note": "Allocation-dependent behaviour is invisible to a Lean model: for those clauses the deciding evidence is the differential run, as stated in DESIGN.md. Trusted: Lean kernel, harness.",
    },
    "C09": {
        "module": "Miden.Props.C09",
        "gens": ["C09"],
        "diff_is_witness": True,
        "assumptions": ["Hint-checking instruction sequences (u32clz/ctz/clo/cto, ilog2, ext2inv/div, u64 div) are decided against the instruction reference / integer oracle under a lying host, not yet by a theorem quantifying over all hints"],
        "level_text": "Theorems with the host universally quantified: MPVERIFY/MRUPDATE complete only with a path of exactly the stated depth that folds the claimed node to the root; for every tree with that root the claimed node is the node at (depth, index) or an RPO merge collision is exhibited (no injectivity assumed) - proved for an arbitrary two-to-one function by induction on the depth; ADVPOP/ADVPOPW/PIPE deliver values in the documented order and fail on a short tape. Harness: a lying Host overrides hint values (0..65, honest+-1, boundary and random field elements) and Merkle paths (other depth, wrong sibling, other tree, reversed) and node values; completed runs are compared with the hint-free reference (Lean Spec / u64 integer oracle / the honest tree) and the model replays exactly what the VM saw.",
        "level_note": "Known finding C09-ilog2-accepts-wrong-hint is reported, not suppressing other witnesses. Trusted: Lean kernel, harness, miden-crypto MerkleTree/MerkleStore as ground truth for trees.",
    },
    "C05": {
        "module": "Miden.Props.C05",
        "extra_modules": ["Miden.Props.C05Auto.P0", "Miden.Props.C05Auto.P1", "Miden.Props.C05Auto.P2", "Miden.Props.C05Auto.P3"],
        "gens": ["C05"],
        "diff_is_witness": True,
        "assumptions": ["Instruction forms without a refinement theorem yet (u32 arithmetic under the u32 guard, lt/lte/gt/gte, exp, shifts/rotations, popcnt, ext2, ...) are decided by comparing the real VM with the executable reference on boundary grids and random sequences"],
        "level_text": "Theorems: for 182 instruction forms (all stack manipulation incl. every dup/swap/movup/movdn/word variant, conditional ops, assertions with error codes, field add/sub/mul/neg/inv/div/eq/neq/not, padw/drop/dropw, sdepth, u32assert2, ...) the operation list the REAL assembler emits (regenerated into Generated/InstrOps.lean on every run) refines the instruction reference transcribed from docs/ (Spec/Instr.lean) on every stack of depth >= 16 with arbitrary contents and arbitrary other machine state; depth never drops below 16 for any operation sequence; a left shift at depth 16 brings in a zero; values pushed beyond position 15 come back in LIFO order. Harness: all 499 instruction forms x boundary operands in every position x depths 0..40, exhaustive boundary grids for binary/unary instructions, random sequences of up to 40 instructions, four immediate syntaxes - real VM vs. executable reference.",
        "level_note": "Reference semantics is hand-transcribed from docs (trusted as the statement). 317 of 499 forms are covered by correspondence only. Trusted: Lean kernel, harness.",
    },
    "C16": {
        "module": "Miden.Props.C16",
        "gens": ["C16"],
        "diff_is_witness": True,
        "assumptions": ["Exactness of the u64/u256 procedures is decided by the integer oracle in the harness on limb-boundary grids and random operands plus model-vs-implementation agreement on the compiled MAST; only the listed procedures have refinement theorems"],
        "level_text": "Theorems over the MAST compiled from stdlib/asm/math/u64.masm by the real assembler (regenerated every run): proved procedures compute the integer function on all limbs < 2^32 with the rest of the stack untouched. Harness: every exported u64 procedure (29) and u256 procedure (8) on the {0,1,2^31,2^32-1}^4 limb grid, shifts 0..63, random operands; results compared with Rust u64/u128/256-bit oracles, rest of the stack checked untouched, zero divisors must fail; the same runs are replayed on the Lean executor model.",
        "level_note": "Known findings C16-u64-shr-low-limb-all-ones and C16-u64-rotr-by-0-or-32-limb-all-ones are reported. Trusted: Lean kernel, harness oracles.",
    },
}

NOT_APPLICABLE = {}
