"""Per-property configuration of ./check."""

PROPS = {
    "C08": {
        "module": "Miden.Props.C08",
        "gens": ["C08"],
        "diff_is_witness": True,
        "assumptions": [
            "RPO collision resistance is NOT assumed; hash sensitivity is checked on the implementation only (metamorphic).",
            "Decorators are outside the model: the harness strips them when it renders a MAST, their invisibility is a metamorphic check on the real assembler.",
        ],
        "trusted_base": ["RPO round constants/MDS are exported from the linked miden-crypto crate"],
        "level_text": "Kernel-checked theorems: batching well-formedness (<=8 groups, <=9 ops/group), batching is a partition of the op sequence, the opcode table equals the one compiled into the crate, MAST hash equations with opcode domains; the executable Lean batching+RPO+MAST-hash model is diffed against Span::new/CodeBlock::hash on exhaustive push patterns and random trees; decorator/whitespace/name invariance and op-sensitivity are metamorphic checks on the real assembler.",
        "level_note": "Trusted: Lean kernel, harness and export code, miden-crypto's constants as exported; RPO collision resistance is not assumed. Decoding-of-groups and hash-sensitivity theorems are not yet proved (checked by correspondence/metamorphic runs only).",
    },
}

NOT_APPLICABLE = {}
