#!/usr/bin/env python3
"""Regenerates /verif/MANIFEST.json from lib/props.py (keeps the manifest valid at all times)."""
import json, os, sys
ROOT = os.path.dirname(os.path.dirname(os.path.abspath(__file__)))
sys.path.insert(0, os.path.join(ROOT, "lib"))
from props import PROPS, NOT_APPLICABLE

ALL = ["C%02d" % i for i in range(1, 20)]
checks = []
for pid in sorted(PROPS):
    c = PROPS[pid]
    checks.append({
        "property_id": pid,
        "quick_cmd": "./check %s --tier quick" % pid,
        "thorough_cmd": "./check %s --tier thorough" % pid,
        "evidence_file": "/verif/evidence/%s.json" % pid,
        "replay_cmd_template": "./check %s --replay {path}" % pid,
        "engine": "lean4-proof+correspondence",
        "level_claimed": {
            "category": "proof",
            "text": c["level_text"],
            "design_ref": c.get("design_ref", "DESIGN.md §4 " + pid),
        },
        "level_note": c["level_note"],
        "technique": c.get("technique", "Lean 4 theorems over an executable model regenerated/tied to /repo by table export and differential correspondence"),
    })
na = [{"property_id": p, "reason": NOT_APPLICABLE.get(p, "check not built yet in this session; see DESIGN.md §4 for the planned theorems")}
      for p in ALL if p not in PROPS]
m = {
    "version": 1,
    "setup_cmd": "./check setup",
    "hooks": {
        "guard": "cf_miden_vm_verif",
        "enable": "no hooks are needed: the harness links /repo's crates through their public API with the existing `internals` cargo feature of miden-processor/miden-air",
        "baseline_off_cmd": "cd /repo && cargo test --workspace --no-fail-fast --offline",
        "source_commits": [],
        "add_only": True,
    },
    "engines": [
        {"name": "lean4-proof+correspondence", "path": "/verif/check",
         "serves_properties": sorted(PROPS),
         "kind_free_text": "Lean 4.33 theorems (lean/Miden/Props) about an executable model (lean/Miden/Model) whose tables are regenerated from /repo on every run (harness `mvh export`, translators/) and whose behaviour is diffed against the real crates through a line protocol (harness/ <-> lean_exe mvmodel)"},
    ],
    "checks": checks,
    "not_applicable": na,
    "notes": "Every check rebuilds the harness against /repo's working tree, regenerates lean/Miden/Generated, rebuilds the property's theorems, audits their axioms and runs the model/implementation correspondence. known_findings.json lists recorded defects.",
}
json.dump(m, open(os.path.join(ROOT, "MANIFEST.json"), "w"), indent=1)
print("MANIFEST.json: %d checks, %d not claimed" % (len(checks), len(na)))
